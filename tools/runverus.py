#!/usr/bin/env python3
"""Run one Verus unit: build it from /repo's working tree, verify it, map every diagnostic to
(function, failed clause, property tags), run the vacuity and self-mutation canaries."""
import os, sys, json, subprocess, time, re, concurrent.futures
sys.path.insert(0, os.path.dirname(os.path.abspath(__file__)))
import vx
from rsx import LostAnchor

VERUS = 'verus'
VERIF = os.path.dirname(os.path.dirname(os.path.abspath(__file__)))

UNITS = {
    # name: (template, cfg features)
    'vol': ('verus/vol/unit.rs.tpl', 'backend-mmap,backend-bitmap,rawfd'),
    'gm': ('verus/gm/unit.rs.tpl', 'backend-mmap,backend-bitmap,rawfd'),
    'bitmap': ('verus/bitmap/unit.rs.tpl', 'backend-mmap,backend-bitmap,rawfd'),
    'mmapcol': ('verus/mmapcol/unit.rs.tpl', 'backend-mmap,backend-bitmap,rawfd'),
    'io': ('verus/io/unit.rs.tpl', 'backend-mmap,backend-bitmap,rawfd'),
    'c08': ('verus/c08/unit.rs.tpl', 'backend-bitmap'),
    'xen': ('verus/xen/unit.rs.tpl', 'backend-mmap,backend-bitmap,rawfd,xen'),
    # the accessor code of volatile_memory.rs under the Xen configuration (same template, cfg xen)
    'volxen': ('verus/vol/unit.rs.tpl', 'backend-mmap,backend-bitmap,rawfd,xen'),
}


def run_verus(path, extra=(), timeout=600, rlimit=None):
    cmd = [VERUS, os.path.basename(path), '--output-json', '--time', '--multiple-errors', '40',
           '--error-format=json'] + list(extra)
    if rlimit:
        cmd += ['--rlimit', str(rlimit)]
    t0 = time.time()
    try:
        p = subprocess.run(cmd, cwd=os.path.dirname(path), capture_output=True, text=True,
                           timeout=timeout)
    except subprocess.TimeoutExpired:
        return dict(timeout=True, cmd=' '.join(cmd), wall=time.time() - t0)
    out = None
    try:
        out = json.loads(p.stdout)
    except Exception:
        pass
    diags = []
    for l in p.stderr.split('\n'):
        l = l.strip()
        if l.startswith('{'):
            try:
                diags.append(json.loads(l))
            except Exception:
                pass
    return dict(rc=p.returncode, out=out, diags=diags, stderr=p.stderr, cmd=' '.join(cmd),
                wall=time.time() - t0, timeout=False)


HARD_ERR = re.compile(r'^(error\[E\d+\]|.*is not supported|.*not yet supported|.*unsupported|'
                      r'.*cannot find|.*mismatched types)', re.I)


# messages that denote a failed proof obligation (everything else is a front-end problem)
VERIF_MSG = re.compile(r'(postcondition not satisfied|precondition not satisfied|requires not satisfied|'
                       r'possible arithmetic underflow/overflow|possible division by zero|assertion failed|'
                       r'invariant not satisfied|decreases not satisfied|could not prove termination|'
                       r'possible bit shift underflow/overflow|index out of bounds|unreachable|'
                       r'failed to (prove|satisfy)|unable to prove|assert_by|not satisfied|resource limit|loop invariant)', re.I)


TAGGED = re.compile(r'//\s*\[[A-Z0-9, ]+\]\s*$')


def classify(res, unit, fname):
    """Turn Verus diagnostics into a list of failures with attribution, or an infrastructure
    problem."""
    if res.get('timeout'):
        return dict(status='inconclusive', reason='verus timed out'), []
    out = res['out']
    errs = [d for d in res['diags'] if d.get('level') == 'error'
            and not d.get('message', '').startswith('aborting due to')]
    if out is None or 'verification-results' not in out:
        msg = '; '.join(d.get('message', '')[:200] for d in errs[:3]) or res['stderr'][-400:]
        return dict(status='inconclusive', reason='verus produced no result (rustc/VIR error): ' + msg), []
    vr = out['verification-results']
    if vr.get('encountered-vir-error'):
        msg = '; '.join(d.get('message', '')[:200] for d in errs[:3])
        return dict(status='inconclusive', reason='VIR error (unsupported construct?): ' + msg), []
    failures = []
    for d in errs:
        msg = d.get('message', '')
        if d.get('code') or 'is not supported' in msg or not VERIF_MSG.search(msg):
            return dict(status='inconclusive', reason='rustc/verus front-end error: ' + msg[:300]), []
        if 'resource limit' in msg.lower() or 'rlimit' in msg.lower():
            return dict(status='inconclusive', reason='solver resource limit: ' + msg[:200]), []
        spans = [s for s in d.get('spans', []) if s.get('file_name', '').endswith(fname)]
        if not spans:
            return dict(status='inconclusive', reason='diagnostic without span in unit: ' + msg[:300]), []
        prim = [s for s in spans if s.get('is_primary')] or spans
        fn = None
        tags = []
        clause = None
        body_fn = None
        for s in spans:
            ln = s['line_start']
            meta = unit.linemeta[ln - 1] if ln - 1 < len(unit.linemeta) else {}
            k = meta.get('kind')
            if k in ('body', 'sig', 'proof'):
                body_fn = body_fn or meta.get('fn')
            if k in ('spec', 'loopinv') or (k == 'prelude' and meta.get('tags')):
                # a clause may span several lines; its tag comment sits on the last one
                for ln2 in range(ln, min(s.get('line_end', ln), len(unit.linemeta)) + 1):
                    m2 = unit.linemeta[ln2 - 1]
                    if m2.get('kind') == k and TAGGED.search(unit.out[ln2 - 1]):
                        tags = list(dict.fromkeys(tags + m2['tags']))
                clause = clause or unit.out[ln - 1].strip()
                fn = fn or meta.get('fn')
        pm = unit.linemeta[prim[0]['line_start'] - 1]
        site_fn = body_fn or pm.get('fn') or fn
        if not tags:
            # implicit obligation (overflow, div0, index, vstd precondition): default tags of the fn
            for f in unit.functions:
                if f['name'] == site_fn:
                    tags = list(f.get('tags', []))
                    if 'division by zero' in msg and f.get('div0tags'):
                        tags = list(f['div0tags'])
            if not tags and pm.get('tags'):
                tags = pm['tags']
        lost = []
        for f in unit.functions:
            if f['name'] == site_fn:
                lost = f.get('lost_hints') or []
        failures.append(dict(fn=site_fn, clause_fn=fn, message=msg, line=prim[0]['line_start'], lost_hints=lost,
                             text=unit.out[prim[0]['line_start'] - 1].strip()[:200],
                             clause=clause, tags=tags,
                             rendered=d.get('rendered', '')[:1500]))
    return dict(status='ok', verified=vr.get('verified', 0), errors=vr.get('errors', 0)), failures


def run_unit(name, repo, scratch, with_canaries=True, jobs=8):
    tpl, cfg = UNITS[name]
    cfgs = {c: True for c in cfg.split(',') if c}
    t0 = time.time()
    drop = set()
    for attempt in range(4):
        unit = vx.Unit(name, os.path.join(VERIF, tpl), repo, cfgs)
        unit.drop_hints = set(drop)
        try:
            text = unit.build()
        except LostAnchor as e:
            return dict(unit=name, status='inconclusive', reason='lost anchor: %s' % e, failures=[])
        fname = 'unit_%s.rs' % name
        path = os.path.join(scratch, fname)
        open(path, 'w').write(text)
        res = run_verus(path)
        st, failures = classify(res, unit, fname)
        if st['status'] != 'inconclusive' or res.get('timeout'):
            break
        # front-end error located in the proof hints / loop invariants of an extracted function
        # (the body changed under them): retry without that function's hints
        culprit = None
        for d in res.get('diags', []):
            if d.get('level') != 'error':
                continue
            for s_ in d.get('spans', []):
                ln = s_.get('line_start', 0)
                if 0 < ln <= len(unit.linemeta):
                    meta = unit.linemeta[ln - 1]
                    if meta.get('kind') in ('loopinv', 'proof', 'body') and meta.get('fn') and meta['fn'] not in drop:
                        if meta['kind'] != 'body' or any(m2.get('kind') in ('loopinv', 'proof') and m2.get('fn') == meta['fn'] for m2 in unit.linemeta):
                            culprit = meta['fn']
                            break
            if culprit:
                break
        if not culprit:
            break
        drop.add(culprit)
    result = dict(unit=name, checker_cmd=res.get('cmd'), wall=res.get('wall'), failures=[],
                  functions=unit.functions, rewrites=unit.rewrites, subs=unit.subs_applied,
                  trusted=vx.scan_trusted(text), canaries=[], gen_lines=len(unit.out))
    result.update(st)
    # template/source synchronisation guard: a function whose text is byte-identical to the text the
    # contracts were written against must not have lost any anchor (that would silently weaken the check)
    pin_path = os.path.join(VERIF, os.path.dirname(tpl), 'expected.json')
    pinned = json.load(open(pin_path)) if os.path.exists(pin_path) else {}
    stale = [f['name'] for f in unit.functions if f.get('lost_hints') and pinned.get(f['name']) == f['sha']]
    if stale:
        result['status'] = 'inconclusive'
        result['reason'] = 'template out of sync: anchors lost in unchanged function(s) %s' % stale
        return result
    result['changed_functions'] = [f['name'] for f in unit.functions if f['name'] in pinned and pinned[f['name']] != f['sha']]
    if st['status'] != 'ok':
        return result
    # vacuity canary: `canary_false` must be among the failures
    can = [f for f in failures if f['fn'] and f['fn'].endswith('canary_false')]
    if not can:
        result['status'] = 'broken'
        result['reason'] = 'vacuity canary `ensures false` was NOT rejected: prelude inconsistent'
        return result
    result['failures'] = [f for f in failures if not (f['fn'] and f['fn'].endswith('canary_false'))]
    result['verified'] = st['verified']
    # the canary counts as one error
    result['errors'] = st['errors'] - 1
    try:
        result['smt_ms'] = res['out']['times-ms']['verification']['total']
    except Exception:
        pass
    result['unit_obj'] = unit
    result['text'] = text
    if with_canaries and unit.canaries:
        base_keys = set()
        for d in res['diags']:
            for s_ in d.get('spans', []):
                if s_.get('is_primary'):
                    base_keys.add((d.get('message'), s_['line_start'], tuple(sorted(x.get('line_start', 0) for x in d.get('spans', [])))))

        def one(can):
            try:
                t = unit.canary_text(text, can)
            except LostAnchor as e:
                return dict(label=can['label'], fn=can['fn'], status='lost', reason=str(e))
            p = os.path.join(scratch, 'canary_%s_%s_%s.rs' % (name, re.sub(r'\W', '_', can['fn']), can['label']))
            open(p, 'w').write(t)
            r = run_verus(p, timeout=400)
            if r.get('timeout') or r.get('out') is None or 'verification-results' not in (r.get('out') or {}) \
                    or (r['out']['verification-results'].get('verified', 0) + r['out']['verification-results'].get('errors', 0)) == 0:
                return dict(label=can['label'], fn=can['fn'], status='inconclusive',
                            reason=(r.get('stderr') or '')[-300:])
            lo, hi = can['lines']
            new_fail = []
            for d in r['diags']:
                if d.get('level') != 'error' or not VERIF_MSG.search(d.get('message', '')):
                    continue
                key = None
                inside = False
                for s_ in d.get('spans', []):
                    if lo <= s_.get('line_start', 0) <= hi:
                        inside = True
                    if s_.get('is_primary'):
                        key = (d['message'], s_['line_start'], tuple(sorted(x.get('line_start', 0) for x in d.get('spans', []))))
                if inside and key not in base_keys:
                    new_fail.append(key)
            return dict(label=can['label'], fn=can['fn'], status='rejected' if new_fail else 'ACCEPTED',
                        mutation='%s => %s' % (can['regex'], can['repl']),
                        new_failures=['%s @gen-line %d' % (k[0], k[1]) for k in new_fail][:3])
        with concurrent.futures.ThreadPoolExecutor(max_workers=jobs) as ex:
            result['canaries'] = list(ex.map(one, unit.canaries))
        # a canary whose pattern no longer exists (code changed under it) is skipped, not fatal
        # ... and so is a canary planted in a function whose body changed under the contract (its text differs
        # from the pinned text) or that already fails on this tree: the one-token mutation may add no NEW
        # failure there.  The canary proves the contract's strength on the pinned text only.
        changed = set(result.get('changed_functions') or [])
        failing = set(f['fn'] for f in result['failures'])
        for c in result['canaries']:
            if c['status'] == 'ACCEPTED' and (c['fn'] in changed or c['fn'] in failing):
                c['status'] = 'lost'
                c['note'] = 'not applicable: the function changed / already fails on this tree'
        bad = [c for c in result['canaries'] if c['status'] not in ('rejected', 'lost')]
        if bad:
            result['status'] = 'broken' if any(c['status'] == 'ACCEPTED' for c in bad) else 'inconclusive'
            result['reason'] = 'self-mutation canary not rejected: ' + json.dumps(bad)[:500]
    result['total_wall'] = time.time() - t0
    return result


if __name__ == '__main__':
    import tempfile, shutil
    name = sys.argv[1]
    d = tempfile.mkdtemp(prefix='vx_')
    try:
        r = run_unit(name, '/repo', d, with_canaries='--no-canaries' not in sys.argv)
        r.pop('unit_obj', None)
        r.pop('text', None)
        fs = r.pop('functions', [])
        print(json.dumps(r, indent=1))
        print(len(fs), 'functions')
    finally:
        if '--keep' in sys.argv:
            print('kept', d)
        else:
            shutil.rmtree(d)
