#!/usr/bin/env python3
"""C12, "programs" quantifier: lifetimes on accessors are contracts rustc proves for every client.
Each program in /verif/cfail tries to let an accessor outlive (or alias) the memory it designates and
must be REJECTED by the borrow checker with one of the expected error codes; control_ok.rs, which uses
the same accessors without escaping, must compile.  The checker here is rustc, not Verus/Kani."""
import os, re, subprocess, glob, time
VERIF = os.path.dirname(os.path.dirname(os.path.abspath(__file__)))


def run(pid, tier, repo, scratch):
    import runextra
    crate = runextra._crate(repo, scratch)
    env = dict(os.environ); env['CARGO_NET_OFFLINE'] = 'true'
    cmd = 'cargo build --offline --features backend-mmap,backend-bitmap --lib'
    p = subprocess.run(cmd, shell=True, cwd=crate, capture_output=True, text=True, env=env, timeout=1200)
    res = dict(engine='rustc', cmds=[cmd + ' && rustc --edition 2021 --extern vm_memory=... <each cfail/*.rs>'], obligations=0, discharged=0,
               violations=[], inconclusive=[], samples=[], trusted=['rustc borrow checker (the lifetime contracts are checked by the Rust compiler itself)'], summary={})
    deps = os.path.join(crate, 'target', 'debug', 'deps')
    libs = sorted(glob.glob(os.path.join(crate, 'target', 'debug', 'libvm_memory*.rlib')))
    if p.returncode != 0 or not libs:
        res['inconclusive'].append('crate did not build for the compile-fail corpus: ' + p.stderr[-300:])
        return res
    rows = []
    for f in sorted(glob.glob(os.path.join(VERIF, 'cfail', '*.rs'))):
        src = open(f).read()
        exp = re.search(r'// expect: (.*)', src).group(1).split()
        out = os.path.join(scratch, 'cfail_' + os.path.basename(f)[:-3])
        q = subprocess.run(['rustc', '--edition', '2021', '--crate-type', 'bin', '-L', 'dependency=' + deps,
                            '--extern', 'vm_memory=' + libs[0], '-o', out, f], capture_output=True, text=True, timeout=300)
        codes = sorted(set(re.findall(r'error\[(E\d+)\]', q.stderr)))
        res['obligations'] += 1
        name = os.path.basename(f)
        if exp == ['ok']:
            ok = q.returncode == 0
            why = 'control program must compile' if not ok else ''
        else:
            ok = q.returncode != 0 and any(c in exp for c in codes) and all(c.startswith('E05') or c.startswith('E07') or c == 'E0499' or c == 'E0716' for c in codes)
            why = ('escaping accessor was ACCEPTED by the compiler' if q.returncode == 0 else 'rejected, but not by the borrow checker: %s' % codes) if not ok else ''
        rows.append(dict(program=name, expected=exp, got=codes or ['compiles']))
        if ok:
            res['discharged'] += 1
        elif q.returncode != 0 and exp != ['ok'] and not any(c.startswith('E05') or c in ('E0716', 'E0499') for c in codes):
            res['inconclusive'].append('%s: does not type-check for an unrelated reason %s (API changed?)' % (name, codes))
        else:
            res['violations'].append(dict(engine='rustc', site='cfail:' + name, message='C12: ' + why,
                                          concrete=dict(program=src), replayed=dict(confirmed=True, note='the program above compiles against the current tree')))
    res['samples'] = rows[:4]
    res['summary'] = dict(programs=len(rows), rows=rows)
    return res
