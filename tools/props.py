"""Per-property configuration: which Verus units / Kani harness groups decide it."""

A_COMMON = [
    'Verus 0.2026.09.13 + Z3 and Kani 0.68 + CBMC 6.11 are sound; machine integers are modelled exactly (absence of overflow is proved, not assumed); usize is 64 bit',
    'extractor rewrite table R1-R11 and the per-function //@sub lines (counted per run in evidence.verus_units[].rewrites_applied)',
]

PROPS = {
    'C01': dict(
        verus=['vol'],
        kani=[],
        level='proof',
        technique='Verus function contracts (requires/ensures) on extracted accessor functions; representation invariant wf + derivation relation is_sub',
        claim='Unbounded proof (Verus/Z3) that every accessor-producing function of volatile_memory.rs, given a well-formed parent, returns Ok exactly when the request fits (in mathematical integers, so overflowing requests do not fit) and then yields an accessor that is the exact sub-range [off, off+count) of the parent inside the same allocation, with typed/atomic references only at aligned addresses; every raw access primitive call is proved in-bounds. Holds for all sizes, offsets, counts, element types and, by modularity, all derivation chains.',
        unbounded='Verus: every accessor-producing function of volatile_memory.rs under contract for all sizes/offsets/counts/element types; chains by modularity',
        assumptions=A_COMMON + [
            'unsafe roots VolatileSlice::new/with_bitmap, VolatileRef::new, VolatileArrayRef::new: caller obligations are assumed (wf of the root accessor)',
            'layout axioms: align_of::<T>() is a power of two <= 4096 and divides size_of::<T>()',
        ],
    ),
    'C19': dict(
        kani=['addr'],
        level='proof',
        technique='Kani function contracts (kani::ensures attached to the real macro-generated methods, proof_for_contract) and loop-free full-domain harnesses against 128-bit exact arithmetic',
        claim='Complete proof (CBMC bit-precise, loop-free, all 2^64 x 2^64 operands, both address types): checked ops return Some exactly when the exact result fits and then that result; overflowing ops return the wrapped value and the exact flag; unchecked ops equal the exact result when it fits; checked_align_up returns Some(r) exactly when the least multiple of 2^k >= a fits, for all 64 k; mask/&/| act on the raw value; ==,<,<=,cmp,max follow raw values.',
        unbounded='all harnesses loop-free over full 64-bit domains => complete, not bounded',
        assumptions=A_COMMON[:1] + ['contracts are injected as #[cfg_attr(kani, kani::ensures(..))] attribute lines into a scratch copy (overlay O2); the function bodies CBMC analyses are /repo\'s unmodified text'],
    ),
    'C20': dict(
        kani=['endian'],
        level='proof',
        technique='Kani loop-free full-domain harnesses against std to_le_bytes/to_be_bytes',
        claim='Complete proof for all values of all 8 wrapper types: from/to_native round trip, as_slice() bytes equal to_le_bytes/to_be_bytes, equality with a native integer (both operand orders) true exactly for the represented value, size_of/align_of equal the native type; write_obj of a wrapper leaves exactly the wire bytes in a VolatileSlice (all offsets of a 16-byte buffer).',
        unbounded='fully symbolic value per type; compare loops have fixed <= 8 iterations and are fully unwound',
        assumptions=A_COMMON[:1] + ['host endianness is the build target\'s (x86_64 little-endian); the big-endian-host half of "regardless of the host" is by the same std functions, not re-proved on a BE target'],
    ),
}
