"""Per-property configuration: which Verus units / Kani harness groups decide it."""

A_COMMON = [
    'Verus 0.2026.09.13 + Z3 and Kani 0.68 + CBMC 6.11 are sound; machine integers are modelled exactly (absence of overflow is proved, not assumed); usize is 64 bit',
    'extractor rewrite table R1-R11 and the per-function //@sub lines (counted per run in evidence.verus_units[].rewrites_applied)',
]

PROPS = {
    'C01': dict(
        verus=['vol'],
        kani=[],
        level='proof',
        technique='Verus function contracts (requires/ensures) on extracted accessor functions; representation invariant wf + derivation relation is_sub',
        claim='Unbounded proof (Verus/Z3) that every accessor-producing function of volatile_memory.rs, given a well-formed parent, returns Ok exactly when the request fits (in mathematical integers, so overflowing requests do not fit) and then yields an accessor that is the exact sub-range [off, off+count) of the parent inside the same allocation, with typed/atomic references only at aligned addresses; every raw access primitive call is proved in-bounds. Holds for all sizes, offsets, counts, element types and, by modularity, all derivation chains.',
        unbounded='Verus: every accessor-producing function of volatile_memory.rs under contract for all sizes/offsets/counts/element types; chains by modularity',
        assumptions=A_COMMON + [
            'unsafe roots VolatileSlice::new/with_bitmap, VolatileRef::new, VolatileArrayRef::new: caller obligations are assumed (wf of the root accessor)',
            'layout axioms: align_of::<T>() is a power of two <= 4096 and divides size_of::<T>()',
        ],
    ),
}
