"""Per-property configuration: which Verus units / Kani harness groups decide it."""

A_COMMON = [
    'Verus 0.2026.09.13 + Z3 and Kani 0.68 + CBMC 6.11 are sound; machine integers are modelled exactly (absence of overflow is proved, not assumed); usize is 64 bit',
    'extractor rewrite table R1-R11 and the per-function //@sub lines (counted per run in evidence.verus_units[].rewrites_applied)',
]

PROPS = {
    'C01': dict(
        verus=['vol'],
        kani=[],
        level='proof',
        technique='Verus function contracts (requires/ensures) on extracted accessor functions; representation invariant wf + derivation relation is_sub',
        claim='Unbounded proof (Verus/Z3) that every accessor-producing function of volatile_memory.rs, given a well-formed parent, returns Ok exactly when the request fits (in mathematical integers, so overflowing requests do not fit) and then yields an accessor that is the exact sub-range [off, off+count) of the parent inside the same allocation, with typed/atomic references only at aligned addresses; every raw access primitive call is proved in-bounds. Holds for all sizes, offsets, counts, element types and, by modularity, all derivation chains.',
        unbounded='Verus: every accessor-producing function of volatile_memory.rs under contract for all sizes/offsets/counts/element types; chains by modularity',
        assumptions=A_COMMON + [
            'unsafe roots VolatileSlice::new/with_bitmap, VolatileRef::new, VolatileArrayRef::new: caller obligations are assumed (wf of the root accessor)',
            'layout axioms: align_of::<T>() is a power of two <= 4096 and divides size_of::<T>()',
        ],
    ),
    'C19': dict(
        kani=['addr'],
        level='proof',
        technique='Kani function contracts (kani::ensures attached to the real macro-generated methods, proof_for_contract) and loop-free full-domain harnesses against 128-bit exact arithmetic',
        claim='Complete proof (CBMC bit-precise, loop-free, all 2^64 x 2^64 operands, both address types): checked ops return Some exactly when the exact result fits and then that result; overflowing ops return the wrapped value and the exact flag; unchecked ops equal the exact result when it fits; checked_align_up returns Some(r) exactly when the least multiple of 2^k >= a fits, for all 64 k; mask/&/| act on the raw value; ==,<,<=,cmp,max follow raw values.',
        unbounded='all harnesses loop-free over full 64-bit domains => complete, not bounded',
        assumptions=A_COMMON[:1] + ['contracts are injected as #[cfg_attr(kani, kani::ensures(..))] attribute lines into a scratch copy (overlay O2); the function bodies CBMC analyses are /repo\'s unmodified text'],
    ),
    'C20': dict(
        kani=['endian'],
        level='proof',
        technique='Kani loop-free full-domain harnesses against std to_le_bytes/to_be_bytes',
        claim='Complete proof for all values of all 8 wrapper types: from/to_native round trip, as_slice() bytes equal to_le_bytes/to_be_bytes, equality with a native integer (both operand orders) true exactly for the represented value, size_of/align_of equal the native type; write_obj of a wrapper leaves exactly the wire bytes in a VolatileSlice (all offsets of a 16-byte buffer).',
        unbounded='fully symbolic value per type; compare loops have fixed <= 8 iterations and are fully unwound',
        assumptions=A_COMMON[:1] + ['host endianness is the build target\'s (x86_64 little-endian); the big-endian-host half of "regardless of the host" is by the same std functions, not re-proved on a BE target'],
    ),
    'C02': dict(
        verus=['gm'],
        level='proof',
        technique='Verus contracts on the extracted GuestMemoryRegion / GuestMemory default methods over an abstract lookup function s_find; data-structure invariant of the mmap collection in V-mmapcol',
        claim='Unbounded proof that every provided default query (region: last_addr, address_in_range, check_address, checked_offset, to_region_addr; collection: to_region_addr, address_in_range, check_address, checked_offset, check_range, get_host_address, get_slice) returns exactly the set-theoretic answer with respect to the lookup function of the collection, for all addresses, lengths and offsets, for any implementation of the traits.',
        unbounded='all region counts, addresses, lengths (Verus); holds for any GuestMemory implementation satisfying find_props',
        assumptions=A_COMMON + ['GuestMemory::find_props: a found region is well formed, contains the address and owns every address of its range (trait-level lemma; discharged for GuestMemoryMmap in unit mmapcol)',
                                'Address arithmetic contracts are those proved by Kani in C19'],
    ),
    'C03': dict(
        verus=['gm', 'vol'],
        level='proof',
        technique='Verus contract on the extracted try_access loop (callback-precondition trick: the callback may only be called with the owning region, the right region offset and the capped length), loop invariant + decreases; contracts on the blanket Bytes<GuestAddress> methods',
        claim='Unbounded proof that try_access hands chunk after chunk to the region owning the current address at offset (address - region start) with length min(rest of region, rest of request), stops at the first unmapped address, and that write/write_slice/read_slice/store/load report exactly the longest mapped run / InvalidGuestAddress / PartialBuffer{expected, completed} the property prescribes.',
        unbounded='all layouts, addresses, buffer lengths (Verus)',
        bounded='byte movement inside one region: Kani K-vs (C04); guest-level read/read_volatile_from/write_volatile_to closures capture &mut (outside Verus): Kani K-gmmock',
        assumptions=A_COMMON + ['callbacks never report more than they were offered (true of every closure in the crate; stated as precondition of try_access)',
                                'region-level Bytes<MemoryRegionAddress> contract (trait level) = what V-vol proves for VolatileSlice::write/read'],
    ),
    'C07': dict(
        verus=['vol', 'gm'],
        level='proof',
        technique='implicit Verus obligations (no overflow/underflow, no division by zero, no out-of-range index, no failing unwrap/assert, termination via decreases) on every extracted function with guest-controlled parameters unconstrained',
        claim='Unbounded proof of panic-freedom and termination for the extracted entry points: preconditions contain only type invariants (wf of accessors/regions), never a restriction on guest-chosen addresses, offsets, lengths or counts.',
        unbounded='all values of all integer parameters',
        assumptions=A_COMMON,
    ),
    'C17': dict(
        verus=['vol'],
        level='proof',
        technique='Verus postconditions on ptr_guard/ptr_guard_mut of the three accessor kinds',
        claim='Standard build: the guard of a slice / typed reference / element array points at the accessor\'s first byte and reports the number of bytes it covers (proved for all element types and counts). Xen on-demand part: see not_decided.',
        unbounded='all element types and counts',
        not_decided='Xen on-demand mapping windows (unit xen) not built yet',
        assumptions=A_COMMON,
    ),
    'C18': dict(
        verus=['vol', 'gm'],
        level='proof',
        technique='Verus postconditions `len == 0 ==> Ok(0)` on the byte-access entry points of all layers; division-by-zero obligations for zero-sized element types',
        claim='Unbounded proof that empty-buffer reads/writes and slice forms return Ok(0)/Ok(()) for every address at slice and guest-memory level.',
        unbounded='all addresses',
        assumptions=A_COMMON,
    ),
}
