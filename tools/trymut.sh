#!/bin/bash
# trymut.sh <patch.diff> <ID> [<ID>...]  -- apply a seeded change to /repo, run checks, undo it.
patch="$1"; shift
cd /repo || exit 9
rm -rf /tmp/ev_save && cp -r /verif/evidence /tmp/ev_save
if ! git diff --quiet -- src; then echo "repo dirty, abort"; exit 9; fi
git apply "$patch" || { echo "patch does not apply"; exit 9; }
for id in "$@"; do
  echo "=== $id on $(basename $(dirname $patch))/$(basename $patch)"
  (cd /verif && ./check "$id" 2>&1 | grep -E "^(VIOLATION|OK|INCONCLUSIVE|KNOWN|FAILED)" | cut -c1-400; echo "rc=${PIPESTATUS[0]}")
done
git -C /repo checkout -- . 
rm -rf /verif/evidence && mv /tmp/ev_save /verif/evidence
