#!/usr/bin/env python3
"""Confirm each seeded change delivered by the mutation sub-agents in a scratch worktree of /repo
(HEAD): patch applies, baseline tests pass with it, demo fails with it, demo passes without it.
Writes /verif/seeded/<id>-m<k>/{patch.diff, demo.rs, meta.json}."""
import os, re, subprocess, json, sys, shutil
W = os.environ.get('SEED_W', '/tmp/seedcheck')
def sh(cmd, cwd=W, timeout=1800):
    p = subprocess.run(cmd, shell=True, cwd=cwd, capture_output=True, text=True, timeout=timeout)
    return p.returncode, (p.stdout + p.stderr)
if not os.path.exists(W):
    print(sh('git -C /repo worktree add --detach %s HEAD' % W, cwd='/'))
KS = tuple(int(x) for x in os.environ.get('SEED_KS','1,2,3,4').split(','))
ids = sys.argv[1:] or sorted(d[:-4] for d in os.listdir('/tmp/mut') if d.endswith('.out'))
for pid in ids:
    for k in KS:
        src = '/tmp/mut/%s.out/m%d' % (pid, k)
        if not os.path.exists(src + '/patch.diff'):
            continue
        out = '/verif/seeded/%s-m%d' % (pid, k)
        notes = open(src + '/notes.md').read() if os.path.exists(src + '/notes.md') else ''
        m = re.search(r'cargo test --offline[^\n`]*--test demo_m%d[^\n`]*' % k, notes)
        cmd = m.group(0).strip() if m else 'cargo test --offline --features backend-mmap,backend-bitmap --test demo_m%d' % k
        cmd = cmd.replace('demo_m%d_xen' % k, 'demo_m%d' % k)
        sh('git checkout -- . && git clean -fdq tests')
        os.makedirs(W + '/tests', exist_ok=True)
        shutil.copy(src + '/demo.rs', W + '/tests/demo_m%d.rs' % k)
        rc_clean, o_clean = sh(cmd)
        rc_apply, o_apply = sh('git apply %s/patch.diff' % src)
        meta = dict(property=pid, change='m%d' % k, demo_cmd=cmd, applies_on_head=(rc_apply == 0))
        if rc_apply == 0:
            rc_base, o_base = sh('cargo test --offline --lib 2>&1 | grep "test result"')
            rc_feat, o_feat = sh('cargo test --offline --lib --features backend-mmap,backend-bitmap,backend-atomic 2>&1 | grep "test result"')
            rc_demo, o_demo = sh(cmd)
            meta.update(baseline_with_change=o_base.strip(), feature_tests_with_change=o_feat.strip(),
                        demo_with_change='FAILS' if rc_demo != 0 else 'passes', demo_without_change='passes' if rc_clean == 0 else 'FAILS',
                        demo_failure_excerpt=[l for l in o_demo.split('\n') if 'panicked' in l or 'assert' in l][:3])
            meta['confirmed'] = ('81 passed' in o_base and ' 0 failed' in o_base and rc_demo != 0 and rc_clean == 0)
        else:
            meta['confirmed'] = False
            meta['apply_error'] = o_apply[-300:]
        nm = re.search(r'(?is)(manifest|needs|condition)[^\n]*\n(.{0,600})', notes)
        meta['needs_to_manifest'] = (nm.group(2).strip()[:600] if nm else '')
        os.makedirs(out, exist_ok=True)
        shutil.copy(src + '/patch.diff', out + '/patch.diff')
        shutil.copy(src + '/demo.rs', out + '/demo.rs')
        if notes: open(out + '/notes.md', 'w').write(notes)
        json.dump(meta, open(out + '/meta.json', 'w'), indent=1)
        print(pid, k, 'confirmed' if meta['confirmed'] else 'NOT CONFIRMED', meta.get('demo_with_change'), meta.get('demo_without_change'), (meta.get('baseline_with_change') or '')[:60])
sh('git checkout -- . && git clean -fdq tests')
