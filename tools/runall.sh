#!/bin/bash
# runall.sh [tier] : run every claimed check on the current tree (regenerates evidence/), print a summary
tier=${1:-quick}
cd /verif
for id in $(python3 -c "import sys; sys.path.insert(0,'tools'); import props; print(' '.join(sorted(props.PROPS)))"); do
  s=$(date +%s); out=$(./check $id --tier $tier 2>&1 | grep -E "^(VIOLATION|OK|INCONCLUSIVE|KNOWN)" | cut -c1-160 | tr '\n' '|'); rc=$?
  echo "$id $(( $(date +%s) - s ))s $out"
done
