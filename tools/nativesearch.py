#!/usr/bin/env python3
"""Run the native counterexample search (native/search.rs) for a property against the current tree.
Returns dict(failing=[...], cmd=..., cases=N).  Used only after an obligation failed."""
import os, re, subprocess, tempfile, shutil
VERIF = os.path.dirname(os.path.dirname(os.path.abspath(__file__)))


def run(tests, pid, repo, seed):
    scratch = tempfile.mkdtemp(prefix='nsearch_')
    try:
        crate = os.path.join(scratch, 'crate')
        subprocess.run(['rsync', '-a', '--exclude', 'target', '--exclude', '.git', '--exclude', 'benches',
                        '--exclude', 'rust-vmm-ci', repo + '/', crate + '/'], check=True)
        ct = open(os.path.join(crate, 'Cargo.toml')).read()
        ct = re.sub(r'\[\[bench\]\]\nname = "main"\nharness = false\n', '', ct)
        open(os.path.join(crate, 'Cargo.toml'), 'w').write(ct)
        os.makedirs(os.path.join(crate, 'tests'), exist_ok=True)
        shutil.copy(os.path.join(VERIF, 'native', 'search.rs'), os.path.join(crate, 'tests', 'verif_search.rs'))
        env = dict(os.environ); env['CARGO_NET_OFFLINE'] = 'true'; env['VERIF_SEED'] = str(seed or 1)
        failing, cmds, cases = [], [], 0
        for t in tests:
            cmd = 'cargo test --offline --features backend-mmap,backend-bitmap --test verif_search %s -- --nocapture --test-threads 1' % t
            try:
                p = subprocess.run('exec timeout -k 5 240 ' + cmd, shell=True, cwd=crate, capture_output=True, text=True, env=env, timeout=300)
                out = p.stdout + p.stderr
                if p.returncode == 124:
                    raise subprocess.TimeoutExpired(cmd, 240)
            except subprocess.TimeoutExpired:
                failing.append(dict(property='C07', input='native search %s did not finish within 240 s on this tree (it takes seconds on the unchanged tree): some operation with an extreme argument does not return' % t, found_by=t))
                cmds.append(cmd)
                continue
            cmds.append(cmd)
            cases += sum(int(x) for x in re.findall(r'CASES (\d+)', out))
            for props_, msg in re.findall(r'FAILING-INPUT: ((?:C\d\d,?)+) (.*)', out):
                for prop in props_.split(','):
                    failing.append(dict(property=prop, input=msg, found_by=t))
            if 'test result:' not in out:
                failing.append(dict(property='?', input='search did not run: ' + out[-300:], found_by=t, infrastructure=True))
        rel = [f for f in failing if f['property'] == pid]
        return dict(failing=rel, other_properties=[f for f in failing if f['property'] != pid][:5], cmds=cmds, cases=cases,
                    replay='apply the same tree, copy /verif/native/search.rs to tests/ and run: ' + '; '.join(cmds))
    finally:
        shutil.rmtree(scratch, ignore_errors=True)


if __name__ == '__main__':
    import sys, json
    print(json.dumps(run(sys.argv[2:], sys.argv[1], '/repo', 1), indent=1)[:3000])
