#!/usr/bin/env python3
"""Extra engines that are not Verus/Kani:
   native:<file>:<test>[:features]  -- bounded stand-in: exhaustive native enumeration against the real crate
   cfail                            -- rustc as the checker of lifetime contracts (compile-fail corpus)"""
import os, re, subprocess, time, shutil, json
VERIF = os.path.dirname(os.path.dirname(os.path.abspath(__file__)))


def _crate(repo, scratch):
    crate = os.path.join(scratch, 'ncrate')
    if not os.path.exists(crate):
        subprocess.run(['rsync', '-a', '--exclude', 'target', '--exclude', '.git', '--exclude', 'benches',
                        '--exclude', 'rust-vmm-ci', repo + '/', crate + '/'], check=True)
        ct = open(os.path.join(crate, 'Cargo.toml')).read()
        ct = re.sub(r'\[\[bench\]\]\nname = "main"\nharness = false\n', '', ct)
        open(os.path.join(crate, 'Cargo.toml'), 'w').write(ct)
        os.makedirs(os.path.join(crate, 'tests'), exist_ok=True)
    return crate


def run(extra, pid, tier, repo, scratch):
    kind = extra.split(':')[0]
    if kind == 'native':
        return run_native(extra, pid, tier, repo, scratch)
    if kind == 'cfail':
        import cfail
        return cfail.run(pid, tier, repo, scratch)
    raise ValueError(extra)


def run_native(extra, pid, tier, repo, scratch):
    parts = extra.split(':')
    fname, test = parts[1], parts[2]
    feats = parts[3] if len(parts) > 3 else ''
    crate = _crate(repo, scratch)
    shutil.copy(os.path.join(VERIF, 'native', fname + '.rs'), os.path.join(crate, 'tests', 'verif_native_%s.rs' % fname))
    env = dict(os.environ)
    env['CARGO_NET_OFFLINE'] = 'true'
    if tier == 'thorough':
        env['VERIF_SCRIPT_LEN'] = '4'
    cmd = 'cargo test --offline --release %s --test verif_native_%s %s -- --nocapture --test-threads 1' % (
        ('--features ' + feats) if feats else '', fname, test)
    t0 = time.time()
    p = subprocess.run(cmd, shell=True, cwd=crate, capture_output=True, text=True, env=env, timeout=3000)
    out = p.stdout + p.stderr
    cases = sum(int(x) for x in re.findall(r'CASES (\d+)', out))
    distinct = sum(int(x) for x in re.findall(r'DISTINCT (\d+)', out))
    fails = re.findall(r'^FAIL: (C\d\d) (.*)$', out, re.M)
    res = dict(engine='native', cmds=[cmd], obligations=0, discharged=0, violations=[], inconclusive=[],
               samples=[], trusted=[], summary=dict(cases=cases, distinct=distinct, wall_s=round(time.time() - t0, 1)))
    if 'test result:' not in out:
        res['inconclusive'].append('native enumeration %s did not run: %s' % (fname, out[-400:]))
        return res
    res['obligations'] = 1
    rel = [f for f in fails if f[0] == pid]
    if rel:
        for prop, msg in rel[:3]:
            res['violations'].append(dict(engine='native', site='native:%s:%s' % (fname, test), message=msg,
                                          concrete=dict(failing_input=msg), replayed=dict(confirmed=True, cmd=cmd)))
    else:
        res['discharged'] = 1
    res['samples'] = [dict(engine='native-enumeration', test=test, cases=cases, nontrivial=distinct,
                           bound='exhaustive within the bound stated in native/%s.rs (bounded stand-in, not a proof)' % fname)]
    return res
