#!/usr/bin/env python3
"""Kani pipeline: copy /repo's working tree to a scratch dir, apply the add-only overlay
(kani/overlay.py), run `cargo kani` on named harnesses, parse per-harness results, and on a
failure ask Kani for the concrete counterexample (concrete playback)."""
import os, sys, re, json, subprocess, time, shutil
VERIF = os.path.dirname(os.path.dirname(os.path.abspath(__file__)))
sys.path.insert(0, os.path.join(VERIF, 'tools'))
sys.path.insert(0, os.path.join(VERIF, 'kani'))
import rsx
from rsx import LostAnchor

MEM_KB = 20 * 1024 * 1024


def sh(cmd, cwd, timeout, log):
    env = dict(os.environ)
    env['CARGO_NET_OFFLINE'] = 'true'
    t0 = time.time()
    with open(log, 'w') as f:
        try:
            p = subprocess.run('ulimit -v %d; %s' % (MEM_KB, cmd), shell=True, cwd=cwd, stdout=f,
                               stderr=subprocess.STDOUT, timeout=timeout, env=env,
                               executable='/bin/bash')
            rc = p.returncode
        except subprocess.TimeoutExpired:
            rc = -9
            # kill stray cbmc processes started from this scratch dir
            subprocess.run("pkill -f '%s' || true" % cwd, shell=True)
    return rc, time.time() - t0


def prepare(repo, scratch, overlay_names):
    """Scratch copy of the working tree + overlay. Returns crate dir."""
    import overlay
    crate = os.path.join(scratch, 'crate')
    if os.path.exists(crate):
        return crate, []
    subprocess.run(['rsync', '-a', '--exclude', 'target', '--exclude', '.git', '--exclude', 'benches',
                    '--exclude', 'rust-vmm-ci', repo + '/', crate + '/'], check=True)
    # benches need criterion (dev-dep) -- drop the [[bench]] target, harmless for the library
    ct = open(os.path.join(crate, 'Cargo.toml')).read()
    ct = re.sub(r'\[\[bench\]\]\nname = "main"\nharness = false\n', '', ct)
    open(os.path.join(crate, 'Cargo.toml'), 'w').write(ct)
    applied = []
    # O1: harness modules (add-only: one `mod` line appended to the host file)
    for ent in overlay.MODULES:
        host, modname, hfile = ent[0], ent[1], ent[2]
        cfgx = ent[3] if len(ent) > 3 else None
        p = os.path.join(crate, host)
        if not os.path.exists(p):
            raise LostAnchor('overlay host file missing: ' + host)
        hdir = os.path.join(scratch, 'kani_harness')
        os.makedirs(hdir, exist_ok=True)
        shutil.copy(os.path.join(VERIF, 'kani', hfile), os.path.join(hdir, hfile))
        with open(p, 'a') as f:
            f.write('\n#[cfg(%s)]\n#[path = "%s"]\npub(crate) mod %s;\n' % (('all(kani, %s)' % cfgx) if cfgx else 'kani', os.path.join(hdir, hfile), modname))
        applied.append('O1 %s <- mod %s (%s)' % (host, modname, hfile))
    # O2: contract attributes above named functions
    for c in overlay.CONTRACTS:
        p = os.path.join(crate, c['file'])
        src = rsx.Source(p)
        f = src.find_fn(c.get('ctx', []), c['fn'], nth=c.get('nth', 1))
        text = src.text
        ls = text.rfind('\n', 0, f['start']) + 1
        indent = re.match(r'\s*', text[ls:]).group(0)
        attrs = ''.join('%s#[cfg_attr(kani, %s)]\n' % (indent, a) for a in c['attrs'])
        text = text[:ls] + attrs + text[ls:]
        open(p, 'w').write(text)
        applied.append('O2 %s::%s +%d contract attribute(s)' % (c['file'], c['fn'], len(c['attrs'])))
    # O3: FFI redirection (textual, the five libc names only)
    for file, pairs in overlay.FFI.items():
        p = os.path.join(crate, file)
        if not os.path.exists(p):
            continue
        text = open(p).read()
        for a, b in pairs:
            text, n = re.subn(a, b, text)
            if n:
                applied.append('O3 %s: %s -> %s (x%d)' % (file, a, b, n))
        open(p, 'w').write(text)
    # O4: appended cfg(kani) helper items
    for file, snippet in overlay.APPEND.items():
        p = os.path.join(crate, file)
        if os.path.exists(p):
            with open(p, 'a') as f:
                f.write('\n' + snippet + '\n')
            applied.append('O4 %s: appended cfg(kani) helper' % file)
    return crate, applied


def parse(log_text, names):
    """Return dict harness -> dict(status, failed_checks, checks, covers).  With -j N every result block
    is introduced by a line `Thread N: ` and belongs to the harness that thread announced last."""
    cur_by_thread = {}
    blocks = {}
    cur = None
    for line in log_text.split('\n'):
        m = re.match(r'^(?:Thread (\d+): )?Checking harness (\S+?)\.\.\.', line)
        if m:
            t = m.group(1) or '0'
            cur_by_thread[t] = m.group(2)
            blocks.setdefault(m.group(2), [])
            cur = m.group(2) if m.group(1) is None else None
            continue
        m = re.match(r'^Thread (\d+): ?$', line)
        if m:
            cur = cur_by_thread.get(m.group(1))
            continue
        if line.startswith('Manual Harness Summary') or line.startswith('Complete - '):
            cur = None
        if cur:
            blocks[cur].append(line)
    summary_failed = set(re.findall(r'Verification failed for - (\S+)', log_text))
    res = {}
    for h, lines in blocks.items():
        t = '\n'.join(lines)
        st = 'unknown'
        if 'VERIFICATION:- SUCCESSFUL' in t and h not in summary_failed:
            st = 'ok'
        elif 'VERIFICATION:- FAILED' in t or h in summary_failed:
            st = 'failed'
        failed = re.findall(r'Failed Checks: (.*)\n File: "([^"]*)", line (\d+)', t)
        fc = ['%s @ %s:%s' % (a, os.path.basename(b), c) for a, b, c in failed]
        fc += [x for x in re.findall(r'Failed Checks: (.*)', t) if not any(x in y for y in fc)]
        m = re.search(r'\*\* (\d+) of (\d+) failed', t)
        checks = int(m.group(2)) if m else 1
        nfailed = int(m.group(1)) if m else None
        m = re.search(r'\*\* (\d+) of (\d+) cover properties satisfied', t)
        covers = (int(m.group(1)), int(m.group(2))) if m else None
        unwind_fail = 'unwinding assertion' in t and st == 'failed'
        tm = re.search(r'Verification Time: ([\d.]+)s', t)
        crashed = st == 'failed' and not fc and (nfailed in (0, None))
        res[h] = dict(status='unknown' if crashed else st, failed_checks=fc, checks=checks, covers=covers,
                      unwind_fail=unwind_fail, time_s=float(tm.group(1)) if tm else None,
                      tail=t[-1500:] if st != 'ok' else None,
                      crash=('CBMC did not complete: ' + ' '.join(x for x in lines if 'CBMC' in x or 'memory' in x)[:300]) if crashed else None)
    return res


def run_groups(pid, groups, tier, repo, scratch, seed):
    import kgroups
    out = dict(cmds=[], harnesses=[], trusted=[], functions=[])
    try:
        crate, applied = prepare(repo, scratch, None)
    except LostAnchor as e:
        out['harnesses'].append(dict(name='overlay', status='inconclusive', reason='lost anchor: %s' % e))
        return out
    out['trusted'] += ['kani overlay: ' + a for a in applied if a.startswith('O3') or a.startswith('O4')]
    n_playback = 0
    for g in groups:
        G = kgroups.GROUPS[g]
        hs = [h for h in G['harnesses'] if (tier == 'thorough' or h.get('tier', 'quick') == 'quick')
              and (pid in h.get('props', [pid]) or pid == 'ALL')]
        if not hs:
            continue
        names = [G['module'] + '::' + h['name'] for h in hs]
        feat = G.get('features', '')
        flags = ' '.join(G.get('flags', ['-Z function-contracts', '-Z stubbing']))
        cmd = 'cargo kani %s %s %s --exact --output-format terse -j %d' % (
            ('--features ' + feat) if feat else '', flags,
            ' '.join('--harness ' + n for n in names), G.get('jobs', 8))
        if G.get('extra_args'):
            cmd += ' ' + G['extra_args']
        log = os.path.join(scratch, 'kani_%s.log' % g)
        rc, wall = sh(cmd, crate, G.get('timeout', 1500 if tier == 'quick' else 3600), log)
        out['cmds'].append(cmd)
        text = open(log, errors='replace').read()
        parsed = parse(text, names)
        build_failed = 'Finished' not in text and ('error[' in text or 'error:' in text)
        for h, n in zip(hs, names):
            r = parsed.get(n)
            rec = dict(name=n, group=g, bound=h.get('bound', 'complete'), doc=h.get('doc', ''),
                       property_tags=h.get('props', [pid]))
            if r is None:
                rec['status'] = 'inconclusive'
                if rc == -9:
                    rec['reason'] = 'timeout / killed'
                elif build_failed:
                    errs = re.findall(r'(error(?:\[E\d+\])?: .*)', text)
                    rec['reason'] = 'kani build failed: ' + ' | '.join(errs[:3])
                else:
                    rec['reason'] = 'no result parsed (rc=%s): %s' % (rc, text[-300:])
            else:
                rec.update(r)
                if r['status'] == 'failed' and r['unwind_fail'] and h.get('unwind_is_obligation'):
                    rec['failed_checks'] = ['C07: the loop did not terminate within the work bound (unwinding assertion): ' + '; '.join(r['failed_checks'])[:300]]
                elif r['status'] == 'failed' and r['unwind_fail'] and all('unwinding' in c for c in r['failed_checks']):
                    rec['status'] = 'inconclusive'
                    rec['reason'] = 'unwinding assertion failed (bound too small)'
                if r['status'] == 'ok' and r['covers'] and r['covers'][0] < r['covers'][1]:
                    rec['status'] = 'inconclusive'
                    rec['reason'] = 'vacuity guard: only %d of %d cover properties satisfied' % r['covers']
                if r['status'] == 'unknown':
                    rec['status'] = 'inconclusive'
                    rec['reason'] = r.get('crash') or 'cbmc did not finish (memory/time limit?)'
                if rec['status'] == 'failed':
                    # assertion messages may start with the property ids they encode ("C04,C03: ...");
                    # checks without such a prefix (CBMC built-ins) count for all tags of the harness
                    rel = []
                    for c in rec.get('failed_checks', []):
                        mm = re.match(r'^"?((?:C\d\d,?)+):', c)
                        if mm is None or pid in mm.group(1).split(',') or pid == 'ALL':
                            rel.append(c)
                    if pid not in rec['property_tags'] and pid != 'ALL' or not rel:
                        rec['other_failed_checks'] = rec.get('failed_checks')
                        rec['status'] = 'ok-other'
                    elif n_playback < 2:
                        n_playback += 1
                        pb = playback(crate, G, n, scratch)
                        rec['concrete'] = pb
                        if pb:
                            rec['replayed'] = pb.pop('replayed', None)
            out['harnesses'].append(rec)
        out['functions'] += [dict(name=f, engine='kani/' + g) for f in G.get('functions', [])]
        out['trusted'] += G.get('trusted', [])
    # harnesses not tagged with pid never affect it
    for h in out['harnesses']:
        if h['status'] == 'ok-other':
            h['status'] = 'ok'
            h['note'] = 'failed, but only carries obligations of other properties'
    return out


def playback(crate, G, name, scratch):
    feat = G.get('features', '')
    flags = ' '.join(G.get('flags', ['-Z function-contracts', '-Z stubbing']))
    cmd = 'cargo kani %s %s -Z concrete-playback --concrete-playback=print --harness %s --exact --output-format terse' % (
        ('--features ' + feat) if feat else '', flags, name)
    log = os.path.join(scratch, 'kani_pb_%s.log' % name.replace(':', '_'))
    rc, wall = sh(cmd, crate, 900, log)
    text = open(log, errors='replace').read()
    m = re.search(r'Concrete playback unit test for `[^`]*`:\s*```(.*?)```', text, re.S)
    if not m:
        return None
    body = m.group(1)
    vals = re.findall(r'//\s*(.+)\n\s*vec!\[([^\]]*)\]', body)
    res = dict(unit_test=body.strip()[:3000], values=[dict(value=a.strip(), bytes=b.strip()) for a, b in vals][:64])
    # native replay: the same harness body, compiled by rustc (not CBMC) against the scratch copy of
    # the real crate, run on the concrete values
    try:
        import overlay
        modname = name.split('::')[0]
        rel = '::'.join(name.split('::')[1:])
        hfile = [e[2] for e in overlay.MODULES if e[1] == modname][0]
        hpath = os.path.join(scratch, 'kani_harness', hfile)
        tm = re.search(r'fn (kani_concrete_playback_\w+)\(\)', body)
        tname = 'verif_replay_%s_%s' % (re.sub(r'\W', '_', rel), tm.group(1)[-8:])
        test = re.sub(r'fn kani_concrete_playback_\w+\(\)', 'fn %s()' % tname, body)
        test = re.sub(r'concrete_playback_run\(concrete_vals, \w+\)', 'concrete_playback_run(concrete_vals, %s)' % rel, test)
        test = test[test.index('#[test]'):]
        with open(hpath, 'a') as f:
            f.write('\n' + test + '\n')
        cmd2 = 'cargo kani playback -Z concrete-playback %s -- %s' % (('--features ' + feat) if feat else '', tname)
        log2 = log + '.native'
        rc2, _ = sh(cmd2, crate, 900, log2)
        t2 = open(log2, errors='replace').read()
        pm = re.search(r"panicked at ([^\n]*)\n([^\n]*)", t2)
        if 'test result: FAILED' in t2 and pm:
            res['replayed'] = dict(confirmed=True, cmd=cmd2, panic='%s: %s' % (pm.group(1), pm.group(2)))
        elif 'test result: ok' in t2:
            res['replayed'] = dict(confirmed=False, cmd=cmd2, note='native run of the harness on the counterexample did not panic (contract attributes are erased outside Kani, or the failure is a CBMC-only check such as pointer validity)')
        else:
            res['replayed'] = dict(confirmed=False, cmd=cmd2, note='native replay did not run: ' + t2[-300:])
    except Exception as e:
        res['replayed'] = dict(confirmed=False, note='native replay not attempted: %r' % e)
    return res


if __name__ == '__main__':
    import tempfile
    d = tempfile.mkdtemp(prefix='kx_')
    r = run_groups(sys.argv[1], sys.argv[2].split(','), sys.argv[3] if len(sys.argv) > 3 else 'quick', '/repo', d, 0)
    print(json.dumps(r, indent=1))
    if '--keep' not in sys.argv:
        shutil.rmtree(d)
    else:
        print(d)
