#!/usr/bin/env python3
"""Run the property's own check against every seeded change (in the scratch worktree /tmp/seedcheck,
via VERIF_REPO, evidence redirected) and record the outcome in seeded/<id>/meta.json."""
import os, sys, json, subprocess, re, glob
W = os.environ.get('SEED_W', '/tmp/seedcheck')
def sh(cmd, cwd=W, timeout=3600, env=None):
    p = subprocess.run(cmd, shell=True, cwd=cwd, capture_output=True, text=True, timeout=timeout, env=env)
    return p.returncode, p.stdout + p.stderr
if not os.path.exists(W):
    sh('git -C /repo worktree add --detach %s HEAD' % W, cwd='/')
seeds = sorted(glob.glob('/verif/seeded/C*-m*')) if len(sys.argv) < 2 else ['/verif/seeded/' + a for a in sys.argv[1:]]
env = dict(os.environ, VERIF_REPO=W, VERIF_EVIDENCE_DIR='/tmp/seed_evidence_' + os.path.basename(W), VERIF_FAIL_FAST='1')
for d in seeds:
    pid = os.path.basename(d).split('-')[0]
    sh('git checkout -- . && git clean -fdq tests')
    rc, o = sh('git apply %s/patch.diff' % d)
    if rc != 0:
        print(d, 'patch does not apply'); continue
    rc, out = sh('./check %s' % pid, cwd='/verif', env=env)
    lines = [l[:300] for l in out.split('\n') if re.match(r'^(VIOLATION|OK|INCONCLUSIVE|FAILED OBLIGATION|FAILING INPUT|UNDECIDED)', l)]
    meta = json.load(open(d + '/meta.json'))
    meta['check_cmd'] = 'VERIF_REPO=<worktree with patch.diff applied> ./check %s' % pid
    meta['check_exit'] = rc
    meta['check_output'] = lines[:8]
    meta['detected'] = (rc == 1 and any(l.startswith('VIOLATION') for l in lines))
    json.dump(meta, open(d + '/meta.json', 'w'), indent=1)
    print(os.path.basename(d), 'exit', rc, (lines[-1] if lines else '')[:120], flush=True)
sh('git checkout -- . && git clean -fdq tests')
