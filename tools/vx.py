#!/usr/bin/env python3
"""vx -- build a Verus unit file from a template + real function text cut out of /repo.

Template = trusted prelude text (Verus source) with directives:

  //@fn <relpath> :: <ctx-regex> [>> <ctx-regex>...] | - :: <name> [:: key=val ...]
  //@sub <regex> => <replacement>         function-specific textual substitution (counted)
  //@spec [C01,C07]                       default property tags of the clauses that follow
      requires ...,                       a clause line may end in  // [C02]  to override
  //@end
  //@loop <k> [tags]                      invariant/decreases for the k-th loop of the body
  //@end
  //@before <k> /<regex>/                 proof text inserted before the line holding the k-th match
  //@end
  //@canary <label> :: <regex> => <repl>  self-mutation canary: this mutant must be REJECTED
  //@endfn

  //@item <relpath> :: <ctx|-> :: <header-regex>      struct/enum definition, rewritten by R*
  //@sub ...
  //@enditem

Only specification syntax is inserted; executable tokens are changed solely by the rewrite
table R* below and by //@sub lines, every application of which is counted and reported.
"""
import re, os, sys, json
sys.path.insert(0, os.path.dirname(os.path.abspath(__file__)))
import rsx
from rsx import LostAnchor

# ----------------------------------------------------------------------------------------
# global rewrite table (DESIGN.md section 2.1).  (id, regex, replacement, what is dropped)
GLOBAL_REWRITES = [
    ('R1', r'\*mut u8\b', 'Ptr', 'raw pointer type -> ghost-interval Ptr'),
    ('R1', r'\*const u8\b', 'Ptr', 'raw pointer type -> ghost-interval Ptr'),
    ('R1', r'\*mut Packed<T>', 'Ptr', 'raw pointer type -> ghost-interval Ptr'),
    ('R1', r'\*const Packed<T>', 'Ptr', 'raw pointer type -> ghost-interval Ptr'),
    ('R3', r'\bunreachable!\(\)', 'vunreachable()', 'panic site -> proof obligation'),
    ('R4', r'\bstd::cmp::min\(', 'vmin(', 'std::cmp::min -> spec\'d prelude vmin'),
    ('R4', r'(?<![\w.:])min\(', 'vmin(', 'std::cmp::min (imported) -> spec\'d prelude vmin'),
    ('R12', r'\|_\|', '|_x|', 'closure parameter `_` -> named (Verus takes only variables there)'),
    ('R5', r"\bBS<'_, ([A-Za-z:]+)>", r'<\1 as Bitmap>::S', 'HRTB alias BS'),
    ('R5', r'\bBS<Self::B>', r'<Self::B as Bitmap>::S', 'HRTB alias BS'),
    ('R5', r'\bBS<B>', r'<B as Bitmap>::S', 'HRTB alias BS'),
    ('R5', r'\bMS<Self>', r'<<Self::R as GuestMemoryRegion>::B as Bitmap>::S', 'HRTB alias MS'),
]

ATTR_RE = re.compile(r'^\s*#\[[^\]]*\]\s*$')


def apply_macro_asserts(text, counts):
    """R3: assert!/assert_eq!/assert_ne!/debug_assert!(..) -> vassert(cond)."""
    out = []
    i = 0
    pat = re.compile(r'\b(debug_assert_eq|debug_assert_ne|debug_assert|assert_eq|assert_ne|assert)!\s*\(')
    while True:
        mm = pat.search(text, i)
        if not mm:
            out.append(text[i:])
            break
        m = rsx.mask(text)
        if m[mm.start()] != 'c':
            out.append(text[i:mm.end()])
            i = mm.end()
            continue
        op = mm.end() - 1
        cl = rsx.match_brace(text, m, op)
        inner = text[op + 1:cl]
        # split top-level commas
        parts, depth, cur = [], 0, ''
        im = rsx.mask(inner)
        for ch, k in zip(inner, im):
            if k == 'c' and ch in '([{':
                depth += 1
            elif k == 'c' and ch in ')]}':
                depth -= 1
            if k == 'c' and ch == ',' and depth == 0:
                parts.append(cur)
                cur = ''
            else:
                cur += ch
        parts.append(cur)
        parts = [p.strip() for p in parts if p.strip() != '']
        kind = mm.group(1)
        if kind in ('assert', 'debug_assert'):
            cond = parts[0]
        elif kind in ('assert_eq', 'debug_assert_eq'):
            cond = '(%s) == (%s)' % (parts[0], parts[1])
        else:
            cond = '(%s) != (%s)' % (parts[0], parts[1])
        out.append(text[i:mm.start()])
        if kind == 'debug_assert' or mm.group(0).startswith('debug_assert'):
            # debug_assert*!: checked in debug builds, NOT EVALUATED AT ALL in release builds --
            # verified for both (vdebug() is an arbitrary boolean), so an argument with a side
            # effect (a call that must happen) is only known to run in one of them
            out.append('if vdebug() { vassert(%s) }' % cond)
            counts['R3d'] = counts.get('R3d', 0) + 1
            counts['R3'] = counts.get('R3', 0) + 1
            i = cl + 1
            continue
        out.append('vassert(%s)' % cond)
        counts['R3'] = counts.get('R3', 0) + 1
        i = cl + 1
    return ''.join(out)


def apply_method_min(text, counts):
    """R13: RECEIVER.min(ARG) -> vmin(RECEIVER, ARG)  (Ord::min is a provided trait method Verus has
    no specification hook for; vmin is its definition).  RECEIVER is the maximal postfix chain of
    identifiers, field/method accesses, paths and balanced (..)/[..]/<..> groups before `.min(`."""
    i = 0
    while True:
        m = rsx.mask(text)
        k = text.find('.min(', i)
        if k < 0:
            return text
        if m[k] != 'c':
            i = k + 1
            continue
        # receiver: scan backwards
        j = k
        while j > 0:
            ch = text[j - 1]
            if ch.isalnum() or ch == '_' or ch == '.':
                j -= 1
            elif ch == ':' and j > 1 and text[j - 2] == ':':
                j -= 2
            elif ch in ')]>':
                op = {')': '(', ']': '[', '>': '<'}[ch]
                depth, q = 0, j - 1
                while q >= 0:
                    if text[q] == ch:
                        depth += 1
                    elif text[q] == op:
                        depth -= 1
                        if depth == 0:
                            break
                    q -= 1
                if q < 0:
                    break
                j = q
            else:
                break
        recv = text[j:k]
        if not recv.strip() or recv.strip()[0] == '.':
            i = k + 1
            continue
        op = k + len('.min')
        cl = rsx.match_brace(text, m, op)
        arg = text[op + 1:cl]
        text = text[:j] + 'vmin(' + recv + ', ' + arg + ')' + text[cl + 1:]
        counts['R13'] = counts.get('R13', 0) + 1
        i = j + 5


def _receiver_start(text, k):
    """start index of the maximal postfix-chain receiver that ends at position k (exclusive)"""
    j = k
    while j > 0:
        ch = text[j - 1]
        if ch.isalnum() or ch == '_' or ch == '.':
            j -= 1
        elif ch == ':' and j > 1 and text[j - 2] == ':':
            j -= 2
        elif ch in ')]>':
            op = {')': '(', ']': '[', '>': '<'}[ch]
            depth, q = 0, j - 1
            while q >= 0:
                if text[q] == ch:
                    depth += 1
                elif text[q] == op:
                    depth -= 1
                    if depth == 0:
                        break
                q -= 1
            if q < 0:
                break
            j = q
        elif ch.isspace() and j > 1 and text[:j].rstrip().endswith(')') and text[j:k].lstrip().startswith('.'):
            j -= 1   # method chains broken over several lines
        else:
            break
    return j


def apply_unwrap_guard(text, counts):
    """R3u: RECEIVER.unwrap() -> result_unwrap_guard(RECEIVER)"""
    i = 0
    while True:
        m = rsx.mask(text)
        k = text.find('.unwrap()', i)
        if k < 0:
            return text
        if m[k] != 'c':
            i = k + 1
            continue
        j = _receiver_start(text, k)
        recv = text[j:k]
        if not recv.strip():
            i = k + 1
            continue
        text = text[:j] + 'result_unwrap_guard(' + recv.strip() + ')' + text[k + len('.unwrap()'):]
        counts['R3u'] = counts.get('R3u', 0) + 1
        i = j + 5


def apply_temp_guard(text, counts):
    """R14: Rust drops a temporary at the end of the enclosing statement.  In
        let p = X.ptr_guard[_mut]().as_ptr()...;
    the guard is such a temporary: `p` outlives it.  The call is renamed as_ptr_temp(), whose contract
    says exactly that (the pointer is no longer covered by a guard: not `live` for on-demand memory)."""
    def fix(m):
        counts['R14'] = counts.get('R14', 0) + 1
        return m.group(1) + '.as_ptr_temp()'
    return re.sub(r'(\blet\s+(?:mut\s+)?\w+(?:\s*:\s*[^=;]+)?\s*=\s*[^;]*?\.ptr_guard(?:_mut)?\(\))\.as_ptr\(\)', fix, text)


def macro_transcriber(src_text, name):
    """the transcriber block of `macro_rules! name { (..) => { BODY }; }` (single-arm macros)"""
    m = re.search(r'macro_rules!\s+' + re.escape(name) + r'\s*\{', src_text)
    if not m:
        raise LostAnchor('macro_rules! %s not found' % name)
    mk = rsx.mask(src_text)
    arm = src_text.find('=>', m.end())
    op = src_text.find('{', arm)
    cl = rsx.match_brace(src_text, mk, op)
    pm = re.search(r'\(\s*\$(\w+)\s*:\s*expr\s*\)', src_text[m.end():arm])
    if not pm:
        raise LostAnchor('macro_rules! %s: expected a single `($x: expr)` arm' % name)
    return pm.group(1), rsx.strip_comments(src_text[op + 1:cl])


def expand_expr_macro(body, name, param, transcriber, counts):
    """R15: NAME!(E) -> the macro's transcriber with $param := E, as a block expression.  A `break VALUE;`
    inside the transcriber's loop (Verus: "complex break expressions") is desugared to
    `RESULT = VALUE; break;` with RESULT declared before the loop and yielded after it."""
    while True:
        mk = rsx.mask(body)
        k = -1
        for mm in re.finditer(r'\b' + re.escape(name) + r'!\s*\(', body):
            if mk[mm.start()] == 'c':
                k = mm.start(); op = mm.end() - 1
                break
        if k < 0:
            return body
        cl = rsx.match_brace(body, mk, op)
        arg = body[op + 1:cl]
        t = transcriber.replace('$' + param, arg)
        t, nb = re.subn(r'\bbreak\s+([A-Za-z_]\w*)\s*;', r'__%s_r = \1; break;' % name, t)
        if nb:
            t = '{ let __%s_r; %s __%s_r }' % (name, t.strip(), name)
        else:
            t = '{ %s }' % t.strip()
        body = body[:k] + t + body[cl + 1:]
        counts['R15'] = counts.get('R15', 0) + 1


def apply_global(text, counts, extra=()):
    text = apply_macro_asserts(text, counts)
    text = apply_method_min(text, counts)
    text = apply_temp_guard(text, counts)
    for rid, pat, rep, _ in list(GLOBAL_REWRITES):
        text, n = re.subn(pat, rep, text)
        if n:
            counts[rid] = counts.get(rid, 0) + n
    return text


def eval_cfg(text, cfgs):
    """R9: drop items/statements/fields guarded by #[cfg(..)] that is false under `cfgs`
    (a dict feature-name -> bool, plus 'unix','miri','linux').  Operates on whole lines:
    a #[cfg(..)] attribute line guards the following item (up to its terminating ';' / ',' or
    matching '}')."""
    def ev(expr):
        expr = expr.strip()
        mm = re.match(r'^(all|any|not)\((.*)\)$', expr, re.S)
        if mm:
            args = split_top(mm.group(2))
            vals = [ev(a) for a in args if a.strip()]
            if mm.group(1) == 'all':
                return all(vals)
            if mm.group(1) == 'any':
                return any(vals)
            return not vals[0]
        mm = re.match(r'^feature\s*=\s*"([^"]+)"$', expr)
        if mm:
            return bool(cfgs.get(mm.group(1), False))
        mm = re.match(r'^target_family\s*=\s*"([^"]+)"$', expr)
        if mm:
            return mm.group(1) == 'unix'
        mm = re.match(r'^target_os\s*=\s*"([^"]+)"$', expr)
        if mm:
            return mm.group(1) == 'linux'
        mm = re.match(r'^target_arch\s*=\s*"([^"]+)"$', expr)
        if mm:
            return mm.group(1) == 'x86_64'
        if expr in ('miri', 'test', 'kani', 'docsrs'):
            return False
        if expr == 'unix':
            return True
        raise LostAnchor('cfg expression not understood: ' + expr)

    def split_top(s):
        parts, depth, cur = [], 0, ''
        for ch in s:
            if ch == '(':
                depth += 1
            elif ch == ')':
                depth -= 1
            if ch == ',' and depth == 0:
                parts.append(cur)
                cur = ''
            else:
                cur += ch
        parts.append(cur)
        return parts

    n = 0
    while True:
        m = rsx.mask(text)
        found = None
        for mm in re.finditer(r'#\[cfg\(', text):
            if m[mm.start()] == 'c':
                found = mm
                break
        if not found:
            break
        op = found.end() - 1
        cl = rsx.match_brace(text, m, op)
        expr = text[op + 1:cl]
        close_br = text.index(']', cl)
        keep = ev(expr)
        n += 1
        if keep:
            text = text[:found.start()] + text[close_br + 1:]
            continue
        # remove the guarded item: from attribute to end of item
        j = close_br + 1
        depth = 0
        end = None
        while j < len(text):
            if m[j] == 'c':
                ch = text[j]
                if ch in '([{':
                    depth += 1
                elif ch in ')]}':
                    if depth == 0:
                        end = j  # enclosing block ends: item ends here (no terminator)
                        break
                    depth -= 1
                    if depth == 0 and ch == '}':
                        # block item / block-bodied statement ends (maybe followed by ; or ,)
                        k = j + 1
                        while k < len(text) and text[k] in ' \t':
                            k += 1
                        if k < len(text) and text[k] in ';,':
                            end = k + 1
                        else:
                            end = j + 1
                        break
                elif ch in ';,' and depth == 0:
                    end = j + 1
                    break
            j += 1
        if end is None:
            raise LostAnchor('cannot delimit cfg-guarded item')
        text = text[:found.start()] + text[end:]
    return text, n


TAG_RE = re.compile(r'//\s*\[([A-Z0-9, ]+)\]\s*$')


class Unit:
    def __init__(self, name, template_path, repo, cfgs):
        self.unit_globals = []
        self.name = name
        self.cfgs = cfgs
        self.tpl = self.load(template_path)
        self.repo = repo
        self.cfgs = cfgs
        self.sources = {}
        self.out = []            # generated lines
        self.linemeta = []       # per generated line: dict(fn=..., tags=[...], kind=...)
        self.functions = []      # metadata per extracted fn
        self.rewrites = {}
        self.subs_applied = []
        self.canaries = []       # (label, fn_name, regex, repl, emitted_fn_index)
        self.drop_hints = set()  # fn ids whose proof hints / loop invariants are to be left out
        self.trusted_scan = []

    def expand_defs(self, line):
        # textual spec macros:  //@def name(a,b) := text   used as  @name(x, y)
        for _ in range(20):
            mm = re.search(r'@(\w+)\(', line)
            if not mm or mm.group(1) not in self.defs:
                break
            params, body = self.defs[mm.group(1)]
            i = mm.end()
            depth, args, cur = 1, [], ''
            while i < len(line) and depth > 0:
                ch = line[i]
                if ch in '([{':
                    depth += 1
                elif ch in ')]}':
                    depth -= 1
                    if depth == 0:
                        break
                if ch == ',' and depth == 1:
                    args.append(cur)
                    cur = ''
                else:
                    cur += ch
                i += 1
            args.append(cur)
            args = [a.strip() for a in args]
            if len(args) != len(params):
                raise LostAnchor('template: @%s expects %d args: %s' % (mm.group(1), len(params), line))
            text = body
            for pn, av in zip(params, args):
                if not re.match(r'^[\w.]+$', av):
                    av = '(' + av + ')'
                text = re.sub(r'\$' + pn + r'\b', av.replace('\\', '\\\\'), text)
            line = line[:mm.start()] + text + line[i + 1:]
        return line

    def load(self, path):
        out = []
        if not hasattr(self, 'defs'):
            self.defs = {}
        skipping = []   # stack of booleans: True while inside a disabled //@if branch
        for l in open(path).read().split('\n'):
            st = l.strip()
            # conditional template text:  //@if <cfg> | //@if !<cfg>  ...  //@else  ...  //@endif
            if st.startswith('//@if '):
                c = st[len('//@if '):].strip()
                on = (not self.cfgs.get(c[1:], False)) if c.startswith('!') else bool(self.cfgs.get(c, False))
                skipping.append(not on)
                continue
            if st == '//@else':
                skipping[-1] = not skipping[-1]
                continue
            if st == '//@endif':
                skipping.pop()
                continue
            if any(skipping):
                continue
            if l.strip().startswith('//@global '):
                # unit-wide textual rewrite applied to every extracted function of this unit (R4-class:
                # std items Verus has no spec for), so that a changed body is rewritten like the pinned one
                a, b = l.strip()[len('//@global '):].split(' => ', 1)
                self.unit_globals.append((a.strip(), b))
                continue
            if l.strip().startswith('//@def '):
                mm = re.match(r'//@def\s+(\w+)\(([^)]*)\)\s*:=\s*(.*)$', l.strip())
                self.defs[mm.group(1)] = ([x.strip() for x in mm.group(2).split(',') if x.strip()], mm.group(3))
                continue
            if '@' in l and (not l.strip().startswith('//@') or l.strip().startswith('//@sub ')):
                l = self.expand_defs(l)
            if l.strip().startswith('//@include '):
                inc = l.strip()[len('//@include '):].strip()
                out.extend(self.load(os.path.join(os.path.dirname(path), inc)))
            else:
                out.append(l)
        return out

    def src(self, rel):
        if rel not in self.sources:
            p = os.path.join(self.repo, rel)
            if not os.path.exists(p):
                raise LostAnchor('source file missing: ' + rel)
            self.sources[rel] = rsx.Source(p)
        return self.sources[rel]

    def emit(self, line, fn=None, tags=None, kind='prelude'):
        for l in line.split('\n'):
            self.out.append(l)
            self.linemeta.append(dict(fn=fn, tags=tags or [], kind=kind))

    def build(self):
        i = 0
        cur_owner = None  # name of the template-level fn currently open (for prelude fns)
        while i < len(self.tpl):
            line = self.tpl[i]
            s = line.strip()
            if s.startswith('//@fn '):
                i = self.do_fn(i)
            elif s.startswith('//@item '):
                i = self.do_item(i)
            else:
                tags = []
                tm = TAG_RE.search(line)
                if tm:
                    tags = [t.strip() for t in tm.group(1).split(',')]
                self.emit(line, fn=None, tags=tags, kind='prelude')
                i += 1
        text = '\n'.join(self.out) + '\n'
        # assign prelude lines to prelude functions (for diagnostics mapping)
        self.assign_prelude_fns()
        return text

    def assign_prelude_fns(self):
        cur = None
        depth = 0
        for idx, l in enumerate(self.out):
            meta = self.linemeta[idx]
            if meta['kind'] != 'prelude':
                cur = None
                continue
            mm = re.match(r'\s*(?:pub\s+)?(?:open\s+|closed\s+)?(?:broadcast\s+)?(?:proof|spec|exec)?\s*fn\s+(\w+)', l)
            if mm:
                cur = 'prelude::' + mm.group(1)
            if cur:
                meta['fn'] = cur

    def parse_block(self, i, endword='//@end'):
        """collect lines until //@end; return (lines, next_index)"""
        lines = []
        while i < len(self.tpl) and self.tpl[i].strip() != endword:
            lines.append(self.tpl[i])
            i += 1
        if i >= len(self.tpl):
            raise LostAnchor('template: missing %s' % endword)
        return lines, i + 1

    def do_item(self, i):
        hdr = self.tpl[i].strip()[len('//@item '):]
        hp = [x.strip() for x in hdr.split(' :: ')]
        rel, ctx, pat = hp[0], hp[1], hp[2]
        iopts = hp[3].split() if len(hp) > 3 else []
        ctxl = [] if ctx == '-' else [c.strip() for c in ctx.split(' ## ')]
        i += 1
        subs = []
        while self.tpl[i].strip() != '//@enditem':
            s = self.tpl[i].strip()
            if s.startswith('//@sub '):
                a, b = (s[len('//@sub '):] + ' ').split(' => ', 1) if ' => ' in (s + ' ') else (s[len('//@sub '):], '')
                b = b.rstrip(' ') if b.strip() == '' else b[:-1]
                subs.append((a.strip(), b))
            i += 1
        it = self.src(rel).find_item(ctxl, pat)
        text = rsx.strip_comments(it['full'])
        text, ncfg = eval_cfg(text, self.cfgs)
        if ncfg:
            self.rewrites['R9'] = self.rewrites.get('R9', 0) + ncfg
        text = '\n'.join(l for l in text.split('\n') if not ATTR_RE.match(l))
        text = apply_global(text, self.rewrites)
        if 'pubfields' in iopts:
            # R11: private fields become pub so that pub spec fns / contracts may mention them
            text, n = re.subn(r'(?m)^(\s+)(?!pub\b)(\w+\s*:)', r'\1pub \2', text)
            self.rewrites['R11'] = self.rewrites.get('R11', 0) + n
        for a, b in subs:
            text, n = re.subn(a, b, text)
            if n == 0:
                raise LostAnchor('item %s: //@sub /%s/ matched nothing' % (pat, a))
            self.subs_applied.append(dict(item=pat, regex=a, repl=b, n=n))
        # units sharing one template share one pin file: an item of the same name in mmap/xen.rs and
        # mmap/unix.rs (MmapRegion) must not collide there
        iname = 'item:' + ('xen:' if rel.endswith('mmap/xen.rs') and 'MmapRegion' in pat else '') + pat
        self.functions.append(dict(name=iname, file=rel, sha=rsx.sha(it['full']),
                                   kind='item'))
        self.emit(text, fn=iname, kind='item')
        return i + 1

    def do_fn(self, i):
        hdr = self.tpl[i].strip()[len('//@fn '):]
        parts = [x.strip() for x in hdr.split('::')]
        # the ctx may itself contain '::' inside regex -> we use ' :: ' as separator
        parts = [x.strip() for x in hdr.split(' :: ')]
        rel, ctx, name = parts[0], parts[1], parts[2]
        opts = {}
        for p in parts[3:]:
            for kv in p.split():
                if '=' in kv:
                    k, v = kv.split('=', 1)
                    opts[k] = v
                else:
                    opts[kv] = True
        ctxl = [] if ctx == '-' else [c.strip() for c in ctx.split(' ## ')]
        deftags = opts.get('tags', '').split(',') if opts.get('tags') else []
        i += 1
        subs, spec, loops, befores, canaries = [], [], {}, [], []
        while True:
            if i >= len(self.tpl):
                raise LostAnchor('template: //@fn %s without //@endfn' % name)
            s = self.tpl[i].strip()
            if s == '//@endfn':
                i += 1
                break
            if s.startswith('//@sub '):
                a, b = (s[len('//@sub '):] + ' ').split(' => ', 1) if ' => ' in (s + ' ') else (s[len('//@sub '):], '')
                b = b.rstrip(' ') if b.strip() == '' else b[:-1]
                subs.append((a.strip(), b))
                i += 1
            elif s.startswith('//@spec'):
                tg = re.search(r'\[([A-Z0-9, ]+)\]', s)
                tg = [t.strip() for t in tg.group(1).split(',')] if tg else deftags
                lines, i = self.parse_block(i + 1)
                spec.append((tg, lines))
            elif s.startswith('//@loop '):
                mm = re.match(r'//@loop\s+(\d+)\s*(\[([A-Z0-9, ]+)\])?', s)
                tg = [t.strip() for t in mm.group(3).split(',')] if mm.group(3) else deftags
                lines, i = self.parse_block(i + 1)
                loops[int(mm.group(1))] = (tg, lines)
            elif s.startswith('//@before ') or s.startswith('//@after '):
                mm = re.match(r'//@(before|after)\s+(\d+)\s+/(.*)/\s*$', s)
                lines, i = self.parse_block(i + 1)
                befores.append((int(mm.group(2)), mm.group(3), lines, mm.group(1)))
            elif s.startswith('//@canary '):
                lab, rest = s[len('//@canary '):].split(' :: ', 1)
                a, b = rest.split(' => ', 1)
                canaries.append((lab.strip(), a.strip(), b))
                i += 1
            elif s == '' or s.startswith('//'):
                i += 1
            else:
                raise LostAnchor('template: unexpected line inside //@fn %s: %s' % (name, s))

        f = self.src(rel).find_fn(ctxl, name, nth=int(opts.get('nth', 1)))
        orig = f['full']
        lost = []
        sig = rsx.strip_comments(f['sig'])
        body = rsx.strip_comments(f['body'])
        sig = '\n'.join(l for l in sig.split('\n') if not ATTR_RE.match(l))
        # R9 cfg evaluation on the body
        body, ncfg = eval_cfg(body, self.cfgs)
        if ncfg:
            self.rewrites['R9'] = self.rewrites.get('R9', 0) + ncfg
        body = '\n'.join(l for l in body.split('\n') if not ATTR_RE.match(l))
        if 'retry_eintr!' in body:
            prm, tr = macro_transcriber(self.src('src/io.rs').text, 'retry_eintr')
            body = expand_expr_macro(body, 'retry_eintr', prm, tr, self.rewrites)
        sig = apply_global(sig, self.rewrites)
        body = apply_global(body, self.rewrites)
        for a, b in self.unit_globals:
            body, ng = re.subn(a, b, body)
            if ng:
                self.rewrites['R4u'] = self.rewrites.get('R4u', 0) + ng
        if opts.get('asserts', '').startswith('guardif:'):
            # as R3g, and additionally a panic-freedom obligation whenever the ghost condition holds
            gexpr = opts['asserts'][len('guardif:'):]
            body, ng = re.subn(r'\bvassert\(', 'vguardif(Ghost(%s), ' % gexpr, body)
            self.rewrites['R3g'] = self.rewrites.get('R3g', 0) + ng
        if opts.get('unwraps') == 'guard':
            # R3u: `.unwrap()` as the function's documented refusal (a panic before anything is handed out):
            # control continues only with the Ok / Some value, no panic-freedom obligation
            body = apply_unwrap_guard(body, self.rewrites)
        if opts.get('asserts') == 'guard':
            # the function's own assert!s are its documented bound check (panic = safe refusal):
            # model them as `returns only if cond` instead of as a panic-freedom obligation, so the
            # postcondition is proved FROM the check and a weakened check fails the postcondition
            body, ng = re.subn(r'\bvassert\(', 'vguard(', body)
            self.rewrites['R3g'] = self.rewrites.get('R3g', 0) + ng
        for a, b in subs:
            n_tot = 0
            sig, n = re.subn(a, b, sig)
            n_tot += n
            body, n = re.subn(a, b, body)
            n_tot += n
            if n_tot == 0:
                # soft anchor: the body changed under this rewrite.  Keep going without it; the
                # function is then marked `lost_hints` and a failed obligation in it is only a
                # violation if a concrete failing input is found (DESIGN.md section 3).
                lost.append('sub /%s/' % a)
                continue
            self.subs_applied.append(dict(fn=name, regex=a, repl=b, n=n_tot))
        head, ret, where = rsx.split_sig_ret(sig)
        emit_name = opts.get('rename', name)
        if emit_name != name:
            head = re.sub(r'\bfn\s+' + re.escape(name) + r'\b', 'fn ' + emit_name, head, count=1)
        if 'vis' in opts and opts['vis'] == 'drop':
            head = re.sub(r'^\s*pub(\([a-z]+\))?\s+', '', head)
        rname = opts.get('ret', 'r')
        ctxid = ''
        if ctxl:
            words = re.findall(r'[A-Z][A-Za-z0-9]+|copy_slice_impl', re.sub(r'\\.', '', ctxl[-1]))
            words = [w for w in words if w not in ('B', 'T', 'BitmapSlice', 'ByteValued', 'Bitmap', 'F', 'NewBitmap')]
            ctxid = '.'.join(dict.fromkeys(words)) + '::' if words else ''
        fnid = '%s::%s%s' % (os.path.basename(rel).replace('.rs', ''), ctxid, emit_name)
        if 'id' in opts:
            fnid = opts['id']
        sigline = head.strip()
        if ret is not None:
            if 'noret' in opts:
                sigline += ' -> ' + ret
            else:
                sigline += ' -> (%s: %s)' % (rname, ret)
        if where:
            sigline += '\n    ' + where
        if fnid in self.drop_hints:
            loops, befores = {}, []
            lost.append('all proof hints dropped (they no longer type-check against the changed body)')
        start_line = len(self.out) + 1
        self.emit('// ---- extracted: %s %s (line %d), sha256/16=%s' % (rel, name, f['line'], rsx.sha(orig)),
                  fn=fnid, kind='sig')
        self.emit(sigline, fn=fnid, tags=deftags, kind='sig')
        for tg, lines in spec:
            for l in lines:
                tm = TAG_RE.search(l)
                t = [x.strip() for x in tm.group(1).split(',')] if tm else tg
                self.emit(l, fn=fnid, tags=t, kind='spec')
        # loops: insert from last to first so offsets stay valid
        inserts = []
        for k, (tg, lines) in loops.items():
            try:
                _, b0 = rsx.nth_loop(body, k)
            except LostAnchor:
                lost.append('loop %d' % k)
                continue
            inserts.append((b0, tg, lines, 'loopinv'))
        for k, pat, lines, where in befores:
            m = rsx.mask(body)
            ms = [mm for mm in rsx.find_code(body, m, pat)]
            if k == 0:
                pos = body.index('{') + 1
                inserts.append((pos, deftags, [''] + lines, 'proof'))
                continue
            if len(ms) < k:
                lost.append('%s %d /%s/' % (where, k, pat))
                continue
            if where == 'after':
                pos = body.find('\n', ms[k - 1].end())
                pos = len(body) if pos < 0 else pos + 1
            else:
                pos = body.rfind('\n', 0, ms[k - 1].start()) + 1
            inserts.append((pos, deftags, lines, 'proof'))
        inserts.sort(key=lambda x: -x[0])
        segs = []  # (text, tags, kind)
        rest = body
        tail = []
        for pos, tg, lines, kind in inserts:
            tail.insert(0, (rest[pos:], deftags, 'body'))
            tail.insert(0, ('\n'.join(lines) + '\n', tg, kind))
            rest = rest[:pos]
        segs = [(rest, deftags, 'body')] + tail
        # emit segments, joining partial lines correctly
        buf = ''
        for text, tg, kind in segs:
            if kind == 'body':
                buf += text
            else:
                # flush buf up to here: the loop '{' stays after the invariant block
                if buf:
                    lines_ = buf.split('\n')
                    for l in lines_[:-1]:
                        self.emit(l, fn=fnid, tags=deftags, kind='body')
                    lastpartial = lines_[-1]
                    if lastpartial.strip():
                        self.emit(lastpartial, fn=fnid, tags=deftags, kind='body')
                    buf = ''
                for l in text.rstrip('\n').split('\n'):
                    tm = TAG_RE.search(l)
                    t = [x.strip() for x in tm.group(1).split(',')] if tm else tg
                    self.emit(l, fn=fnid, tags=t, kind=kind)
        if buf:
            for l in buf.split('\n'):
                self.emit(l, fn=fnid, tags=deftags, kind='body')
        end_line = len(self.out)
        rec = dict(name=fnid, src_name=name, file=rel, src_line=f['line'], sha=rsx.sha(orig),
                   gen_lines=[start_line, end_line], tags=deftags, kind='fn',
                   nspec=sum(len(l) for _, l in spec), nloops=len(loops),
                   div0tags=opts.get('div0tags', '').split(',') if opts.get('div0tags') else None,
                   lost_hints=lost)
        self.functions.append(rec)
        for lab, a, b in canaries:
            self.canaries.append(dict(label=lab, fn=fnid, regex=a, repl=b, lines=[start_line, end_line]))
        return i

    def canary_text(self, base_text, can):
        """Return unit text with the canary mutation applied inside the function's body lines."""
        lines = base_text.split('\n')
        lo, hi = can['lines']
        seg = '\n'.join(l for l, m in zip(lines[lo - 1:hi], self.linemeta[lo - 1:hi]))
        # mutate only body lines
        new_lines = []
        n_tot = 0
        for idx in range(lo - 1, hi):
            l = lines[idx]
            if self.linemeta[idx]['kind'] == 'body' and n_tot == 0:
                l2, n = re.subn(can['regex'], can['repl'], l, count=1)
                n_tot += n
                l = l2
            new_lines.append(l)
        if n_tot == 0:
            raise LostAnchor('canary %s: pattern /%s/ not found in %s' % (can['label'], can['regex'], can['fn']))
        return '\n'.join(lines[:lo - 1] + new_lines + lines[hi:])


def scan_trusted(text):
    """List every assume / admit / external_body / assume_specification / axiom in a unit."""
    res = []
    for no, l in enumerate(text.split('\n'), 1):
        s = l.strip()
        if s.startswith('//'):
            continue
        for kw in ('assume_specification', 'external_body', 'external_type_specification',
                   'external_fn_specification', 'admit()', 'assume(', 'axiom '):
            if kw in s:
                res.append('%s @%d: %s' % (kw.strip('( '), no, s[:140]))
                break
    return res


if __name__ == '__main__':
    import argparse
    ap = argparse.ArgumentParser()
    ap.add_argument('template')
    ap.add_argument('--repo', default='/repo')
    ap.add_argument('--out', required=True)
    ap.add_argument('--cfg', default='backend-mmap,backend-bitmap,rawfd')
    a = ap.parse_args()
    cfgs = {c: True for c in a.cfg.split(',') if c}
    u = Unit(os.path.basename(a.template), a.template, a.repo, cfgs)
    t = u.build()
    open(a.out, 'w').write(t)
    json.dump(dict(functions=u.functions, rewrites=u.rewrites, subs=u.subs_applied,
                   canaries=u.canaries), open(a.out + '.meta.json', 'w'), indent=1)
    print('wrote', a.out, len(t.split('\n')), 'lines;', len(u.functions), 'extracted')
