#!/bin/bash
# k1.sh <group> <harness-suffix-regex> : run matching harnesses of a group (fresh overlay) and print per-harness result/time
cd /verif && python3 - "$@" <<'PY'
import sys, os, tempfile, shutil, json, re
sys.path.insert(0,'/verif/tools'); sys.path.insert(0,'/verif/kani')
import runkani, kgroups
g=sys.argv[1]; pat=sys.argv[2]
G=kgroups.GROUPS[g]
G['harnesses']=[dict(h, tier='quick') for h in G['harnesses'] if re.search(pat,h['name'])]
d=tempfile.mkdtemp(prefix='k1_')
r=runkani.run_groups('ALL',[g],'quick',os.environ.get('K1_REPO','/repo'),d,0)
for h in r['harnesses']:
    print(h['name'].split('::')[-1], h['status'], h.get('time_s'), (h.get('reason') or '')[:300], h.get('failed_checks') or '')
if '--keep' in sys.argv: print(d)
else: shutil.rmtree(d)
PY
