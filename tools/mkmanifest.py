#!/usr/bin/env python3
"""Regenerate MANIFEST.json from tools/props.py (claimed) + NOT_APPLICABLE below."""
import json, os, sys
VERIF = os.path.dirname(os.path.dirname(os.path.abspath(__file__)))
sys.path.insert(0, os.path.join(VERIF, 'tools'))
import props
ids = [json.loads(l)['id'] for l in open(os.path.join(VERIF, 'properties.jsonl'))]
NA = {
    'C11': 'not applicable to contract-based verification here: the crate code is six straight-line delegations to arc_swap::ArcSwap / Arc / Mutex and the property is their linearizability under all interleavings; Kani has no threads and its compiler ICEs on any build with backend-atomic (arc-swap), Verus cannot express effects through &self without rewriting the code into permission types (a model). See DESIGN.md section 6.',
}
checks = []
for pid in ids:
    if pid in props.PROPS:
        c = props.PROPS[pid]
        checks.append(dict(
            property_id=pid,
            quick_cmd='./check %s --tier quick' % pid,
            thorough_cmd='./check %s --tier thorough' % pid,
            evidence_file='/verif/evidence/%s.json' % pid,
            replay_cmd_template='./check %s --replay {path}' % pid,
            engine='+'.join((['verus'] if c.get('verus') else []) + (['kani'] if c.get('kani') else []) + c.get('extra', [])),
            level_claimed=dict(category=c.get('level', 'proof'), text=c.get('claim', ''), design_ref='DESIGN.md section 5, ' + pid),
            level_note='; '.join(c.get('assumptions', []))[:3000],
            technique=c.get('technique', 'contract-based deductive verification'),
        ))
na = []
for pid in ids:
    if pid not in props.PROPS:
        na.append(dict(property_id=pid, reason=NA.get(pid, 'check not built yet (work in progress; see DESIGN.md section 5)')))
m = dict(version=1,
         setup_cmd='true',
         hooks=dict(guard='none in /repo: cfg(kani) harness modules and FFI redirection are applied by the checks to a scratch copy of the working tree (tools/runkani.py overlay O1-O4); /repo carries no hook',
                    enable='./check <ID> copies /repo\'s working tree to a scratch dir, overlays add-only #[cfg(kani)] modules there and runs cargo kani; Verus units are generated from /repo/src text at run time',
                    baseline_off_cmd='cd /repo && cargo test --workspace --no-fail-fast --offline',
                    source_commits=props.FIX_COMMITS if hasattr(props, 'FIX_COMMITS') else [],
                    add_only=True),
         engines=[dict(name='verus-units', path='/verif/verus', serves_properties=[p for p in ids if p in props.PROPS and props.PROPS[p].get('verus')],
                       kind_free_text='Verus 0.2026.09.13 on function text extracted from /repo every run (tools/vx.py) + contracts in verus/*/unit.rs.tpl'),
                  dict(name='kani-overlay', path='/verif/kani', serves_properties=[p for p in ids if p in props.PROPS and props.PROPS[p].get('kani')],
                       kind_free_text='Kani 0.68 / CBMC 6.11 on the real crate compiled from a scratch copy with add-only harness modules (tools/runkani.py)')],
         checks=checks, not_applicable=na,
         notes='See DESIGN.md. exit 0 = all obligations of the property discharged; exit 1 = VIOLATION line; exit 2 = inconclusive (lost anchor / tool limit), never an alarm.')
json.dump(m, open(os.path.join(VERIF, 'MANIFEST.json'), 'w'), indent=1)
print('claimed:', [c['property_id'] for c in checks])
