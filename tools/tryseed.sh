#!/bin/bash
# tryseed.sh <seed-dir-name> [<ID>...] : run checks against a seeded change in the scratch worktree /tmp/sc2
# (never touches /repo or evidence/)
s="$1"; shift
W=/tmp/sc2
[ -d $W ] || git -C /repo worktree add --detach $W HEAD >/dev/null 2>&1
git -C $W checkout -q -- . ; git -C $W clean -fdq tests
git -C $W apply /verif/seeded/$s/patch.diff || { echo "patch does not apply"; exit 9; }
ids="$@"; [ -z "$ids" ] && ids=${s%%-*}
for id in $ids; do
  echo "=== $id on $s"
  (cd /verif && VERIF_REPO=$W VERIF_EVIDENCE_DIR=/tmp/sc2_evidence ./check "$id" 2>&1 | grep -E "^(VIOLATION|OK|INCONCLUSIVE|KNOWN|FAILED|FAILING|UNDECIDED)" | cut -c1-400; echo "rc=${PIPESTATUS[0]}")
done
git -C $W checkout -q -- .
