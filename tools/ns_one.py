#!/usr/bin/env python3
"""ns_one.py <repo> <test>... : run native search tests against a tree and print every finding (soundness
check of the search itself: on the unchanged tree it must report nothing)."""
import sys, os; sys.path.insert(0, os.path.dirname(os.path.abspath(__file__))); import nativesearch
for pid in ('C01','C02','C03','C04','C05','C07','C09','C10','C16','C18'):
    r = nativesearch.run(sys.argv[2:], pid, sys.argv[1], 1)
    print(pid, 'cases', r['cases'], 'failing', r['failing'][:3])
    break
print('other', r['other_properties'])
