#!/usr/bin/env python3
"""pin.py: record the sha of every extracted function text (current /repo tree) per Verus unit, so that
the runner can tell "the body changed under the contract" from "the template is out of sync"."""
import os, sys, json
sys.path.insert(0, os.path.dirname(os.path.abspath(__file__)))
import vx, runverus
seen = set()
for name, (tpl, cfg) in runverus.UNITS.items():
    p = os.path.join(runverus.VERIF, tpl)
    if not os.path.exists(p):
        continue
    u = vx.Unit(name, p, '/repo', {c: True for c in cfg.split(',') if c})
    u.build()
    lost = [f['name'] for f in u.functions if f.get('lost_hints')]
    assert not lost, ('anchors lost on the pinned tree', name, lost)
    out = os.path.join(os.path.dirname(p), 'expected.json')
    pins = json.load(open(out)) if (os.path.exists(out) and out in seen) else {}   # units sharing a template share the pin file
    seen.add(out)
    pins.update({f['name']: f['sha'] for f in u.functions})
    json.dump(pins, open(out, 'w'), indent=1, sort_keys=True)
    print(name, len(u.functions), 'functions pinned')
