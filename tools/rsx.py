#!/usr/bin/env python3
"""rsx -- a small Rust-token-aware scanner used to cut real function text out of /repo.

It does NOT parse Rust; it classifies every character of a source file as code / comment /
string / char-literal, so that brace matching and keyword search only ever look at code.
Items are addressed by (file, context-header regex, fn name), never by line number.
"""
import re, hashlib


class LostAnchor(Exception):
    pass


def mask(text):
    """Return a list m with m[i] = 'c' code, '/' comment, 's' string/char literal."""
    n = len(text)
    m = ['c'] * n
    i = 0
    while i < n:
        ch = text[i]
        if ch == '/' and i + 1 < n and text[i + 1] == '/':
            j = text.find('\n', i)
            if j < 0:
                j = n
            for k in range(i, j):
                m[k] = '/'
            i = j
        elif ch == '/' and i + 1 < n and text[i + 1] == '*':
            depth = 1
            j = i + 2
            while j < n and depth > 0:
                if text.startswith('/*', j):
                    depth += 1
                    j += 2
                elif text.startswith('*/', j):
                    depth -= 1
                    j += 2
                else:
                    j += 1
            for k in range(i, j):
                m[k] = '/'
            i = j
        elif ch == '"' or (ch == 'b' and text.startswith('b"', i) and not _identch(text, i - 1)):
            j = i + (2 if ch == 'b' else 1)
            while j < n and text[j] != '"':
                if text[j] == '\\':
                    j += 1
                j += 1
            j += 1
            for k in range(i, min(j, n)):
                m[k] = 's'
            i = j
        elif ch == 'r' and not _identch(text, i - 1) and re.match(r'r#*"', text[i:i + 20]):
            mm = re.match(r'r(#*)"', text[i:i + 20])
            hashes = mm.group(1)
            end = text.find('"' + hashes, i + len(mm.group(0)))
            j = n if end < 0 else end + 1 + len(hashes)
            for k in range(i, j):
                m[k] = 's'
            i = j
        elif ch == "'":
            # char literal or lifetime
            mm = re.match(r"'(\\.[^']*|[^\\'])'", text[i:i + 12])
            if mm:
                j = i + len(mm.group(0))
                for k in range(i, j):
                    m[k] = 's'
                i = j
            else:
                i += 1  # lifetime
        else:
            i += 1
    return m


def _identch(text, i):
    return i >= 0 and (text[i].isalnum() or text[i] == '_')


def strip_comments(text):
    m = mask(text)
    out = []
    for ch, k in zip(text, m):
        if k == '/':
            out.append('\n' if ch == '\n' else '')
        else:
            out.append(ch)
    s = ''.join(out)
    # drop lines that became empty
    lines = [l.rstrip() for l in s.split('\n')]
    res = []
    for l in lines:
        if l.strip() == '' and (not res or res[-1].strip() == ''):
            continue
        res.append(l)
    return '\n'.join(res)


def match_brace(text, m, open_idx):
    """open_idx points at a code '{' / '(' / '['; return index of the matching closer."""
    pairs = {'{': '}', '(': ')', '[': ']'}
    o = text[open_idx]
    c = pairs[o]
    depth = 0
    for i in range(open_idx, len(text)):
        if m[i] != 'c':
            continue
        if text[i] == o:
            depth += 1
        elif text[i] == c:
            depth -= 1
            if depth == 0:
                return i
    raise LostAnchor('unbalanced %s at %d' % (o, open_idx))


def find_code(text, m, pattern, start=0, end=None):
    """Iterate regex matches whose first char is code."""
    end = len(text) if end is None else end
    for mm in re.finditer(pattern, text[:end]):
        if mm.start() >= start and m[mm.start()] == 'c':
            yield mm


def block_after(text, m, pos):
    """First code '{' at or after pos (at paren depth 0) and its matching '}'."""
    depth = 0
    i = pos
    while i < len(text):
        if m[i] == 'c':
            ch = text[i]
            if ch in '([':
                depth += 1
            elif ch in ')]':
                depth -= 1
            elif ch == '{' and depth == 0:
                return i, match_brace(text, m, i)
            elif ch == ';' and depth == 0:
                raise LostAnchor('item without body at %d' % pos)
        i += 1
    raise LostAnchor('no block after %d' % pos)


def depth_at(text, m, lo, hi):
    d = 0
    for i in range(lo, hi):
        if m[i] == 'c':
            if text[i] == '{':
                d += 1
            elif text[i] == '}':
                d -= 1
    return d


class Source:
    def __init__(self, path):
        self.path = path
        self.text = open(path).read()
        self.m = mask(self.text)

    def context(self, ctx):
        """ctx: list of regexes, each the header of a nested block; returns (lo, hi) of the
        innermost block's interior."""
        lo, hi = 0, len(self.text)
        for pat in ctx:
            found = None
            for mm in find_code(self.text, self.m, pat, lo, hi):
                if depth_at(self.text, self.m, lo, mm.start()) != 0:
                    continue
                found = mm
                break
            if not found:
                raise LostAnchor('context /%s/ not found in %s' % (pat, self.path))
            b0, b1 = block_after(self.text, self.m, found.end())
            lo, hi = b0 + 1, b1
        return lo, hi

    def find_fn(self, ctx, name, nth=1):
        """Return dict(sig=..., body=..., full=..., start, end) for fn `name` directly inside
        the context block."""
        lo, hi = self.context(ctx)
        cnt = 0
        for mm in find_code(self.text, self.m, r'\bfn\s+' + re.escape(name) + r'\b', lo, hi):
            if depth_at(self.text, self.m, lo, mm.start()) != 0:
                continue
            cnt += 1
            if cnt != nth:
                continue
            # qualifiers before fn on the same logical item: walk back over pub/unsafe/const/etc.
            s = mm.start()
            pre = self.text[lo:s]
            q = re.search(r'((?:pub(?:\([a-z]+\))?\s+|unsafe\s+|const\s+|async\s+|extern\s+"C"\s+)*)$', pre)
            s0 = s - len(q.group(1)) if q else s
            b0, b1 = block_after(self.text, self.m, mm.end())
            sig = self.text[s0:b0]
            body = self.text[b0:b1 + 1]
            return dict(sig=sig, body=body, full=self.text[s0:b1 + 1], start=s0, end=b1 + 1,
                        line=self.text.count('\n', 0, s0) + 1)
        raise LostAnchor('fn %s not found in context %s of %s' % (name, ctx, self.path))

    def find_item(self, ctx, header_pat):
        """A braced item (struct/enum/impl) by header regex; returns full text."""
        lo, hi = self.context(ctx)
        for mm in find_code(self.text, self.m, header_pat, lo, hi):
            if depth_at(self.text, self.m, lo, mm.start()) != 0:
                continue
            b0, b1 = block_after(self.text, self.m, mm.end())
            return dict(full=self.text[mm.start():b1 + 1], header=self.text[mm.start():b0],
                        body=self.text[b0:b1 + 1], start=mm.start(), end=b1 + 1)
        raise LostAnchor('item /%s/ not found in %s' % (header_pat, self.path))


def sha(s):
    return hashlib.sha256(s.encode()).hexdigest()[:16]


def split_sig_ret(sig):
    """Split a fn signature (no body) into (head, ret, where). ret is None when absent."""
    m = mask(sig)
    # find params '(' after fn name/generics: first code '(' at angle depth 0
    i = sig.index('fn')
    depth_angle = 0
    p = None
    j = i
    while j < len(sig):
        if m[j] == 'c':
            ch = sig[j]
            if ch == '<':
                depth_angle += 1
            elif ch == '>' and sig[j - 1] != '-':
                depth_angle -= 1
            elif ch == '(' and depth_angle == 0:
                p = j
                break
        j += 1
    if p is None:
        raise LostAnchor('no params in signature: ' + sig)
    pe = match_brace(sig, m, p)
    rest = sig[pe + 1:]
    head = sig[:pe + 1]
    wm = re.search(r'\bwhere\b', rest)
    where = ''
    if wm:
        where = rest[wm.start():]
        rest = rest[:wm.start()]
    rm = re.match(r'\s*->\s*(.*\S)\s*$', rest, re.S)
    ret = rm.group(1) if rm else None
    return head, ret, where.strip()


def nth_loop(body, k):
    """Position of the '{' opening the body of the k-th (1-based) loop in `body`."""
    m = mask(body)
    cnt = 0
    for mm in find_code(body, m, r'\b(for|while|loop)\b'):
        # `for<'a>` HRTB is not a loop
        after = body[mm.end():mm.end() + 2]
        if mm.group(1) == 'for' and after.lstrip().startswith('<'):
            continue
        cnt += 1
        if cnt == k:
            b0, _ = block_after(body, m, mm.end())
            return mm.start(), b0
    raise LostAnchor('loop #%d not found' % k)
