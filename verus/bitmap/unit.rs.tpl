// V-bitmap: AtomicBitmap page arithmetic + BaseSlice / () / Option bitmap flavours (C09 C16 C05 C07).
// R7: AtomicU64 is replaced by the sequential VAtomicU64 below (its methods take &mut self) and the
// AtomicBitmap methods that call fetch_or / fetch_and take &mut self -- sound for the sequential
// set semantics decided here; concurrency is C08's reduction.
#![allow(unused_imports, dead_code, unused_variables, unused_unsafe, unused_mut, unused_parens)]
use vstd::prelude::*;

verus! {

//@global / self\.page_size(?![.\w]) => / self.page_size.get()
//@include ../common/ptr.rs
//@include ../common/stdnum.rs


#[derive(Clone, Copy)]
pub struct Ordering { pub o: u8 }
impl Ordering {
    pub const SeqCst: Ordering = Ordering { o: 4 };
    pub const Acquire: Ordering = Ordering { o: 2 };
    pub const Release: Ordering = Ordering { o: 3 };
}
pub struct VAtomicU64 { pub v: u64 }
impl VAtomicU64 {
    pub fn fetch_or(&mut self, m: u64, o: Ordering) -> (r: u64)
        ensures r == old(self).v, final(self).v == old(self).v | m
    { let r = self.v; self.v = self.v | m; r }
    pub fn fetch_and(&mut self, m: u64, o: Ordering) -> (r: u64)
        ensures r == old(self).v, final(self).v == old(self).v & m
    { let r = self.v; self.v = self.v & m; r }
    pub fn load(&self, o: Ordering) -> (r: u64)
        ensures r == self.v
    { self.v }
    // the rest of the AtomicU64 surface a changed body may reach for (sequential semantics)
    pub fn store(&mut self, x: u64, o: Ordering)
        ensures final(self).v == x
    { self.v = x; }
    pub fn swap(&mut self, x: u64, o: Ordering) -> (r: u64)
        ensures r == old(self).v, final(self).v == x
    { let r = self.v; self.v = x; r }
    pub fn fetch_xor(&mut self, m: u64, o: Ordering) -> (r: u64)
        ensures r == old(self).v, final(self).v == old(self).v ^ m
    { let r = self.v; self.v = self.v ^ m; r }
}
impl VAtomicU64 {
    pub fn new(v: u64) -> (r: VAtomicU64) ensures r.v == v { VAtomicU64 { v } }
}
/// R6: `(0..n).map(|_| AtomicU64::new(0)).collect()` -- n zero words (iterator adapters are outside Verus;
/// K-bm `new_is_empty_with_stated_len` checks the real expression, bounded)
pub fn zero_words(n: usize) -> (r: Vec<VAtomicU64>)
    ensures r@.len() == n, forall|i: int| 0 <= i < n ==> (#[trigger] r@[i]).v == 0
{
    let mut v: Vec<VAtomicU64> = Vec::new();
    let mut i: usize = 0;
    while i < n
        invariant i <= n, v@.len() == i, forall|j: int| 0 <= j < i ==> (#[trigger] v@[j]).v == 0
        decreases n - i
    { v.push(VAtomicU64::new(0)); i += 1; }
    v
}
/// R6: Vec::resize_with(n, Default::default) for words: truncate or extend with zero words
#[verifier::external_body]
pub fn resize_with_zero(v: &mut Vec<VAtomicU64>, n: usize)
    ensures final(v)@.len() == n,
        forall|i: int| 0 <= i < n && i < old(v)@.len() ==> final(v)@[i] == old(v)@[i],
        forall|i: int| old(v)@.len() <= i < n ==> (#[trigger] final(v)@[i]).v == 0,
{ unimplemented!() }
pub struct NonZeroUsize { pub v: usize }
impl NonZeroUsize {
    pub fn get(&self) -> (r: usize) ensures r == self.v { self.v }
}

//@item src/bitmap/backend/atomic_bitmap.rs :: - :: pub struct AtomicBitmap :: pubfields
//@sub Vec<AtomicU64> => Vec<VAtomicU64>
//@enditem

/// bit n of the word vector
pub open spec fn bit(map: Seq<VAtomicU64>, n: int) -> bool {
    (map[n / 64].v >> ((n % 64) as u64)) & 1 == 1
}

pub proof fn lemma_or_bit(w: u64, i: u64, j: u64)
    requires i < 64, j < 64
    ensures ((w | (1u64 << i)) >> j) & 1 == (if i == j { 1u64 } else { (w >> j) & 1 })
{
    assert(i < 64 && j < 64 ==> ((w | (1u64 << i)) >> j) & 1 == (if i == j { 1u64 } else { (w >> j) & 1 })) by (bit_vector);
}
pub proof fn lemma_andnot_bit(w: u64, i: u64, j: u64)
    requires i < 64, j < 64
    ensures ((w & !(1u64 << i)) >> j) & 1 == (if i == j { 0u64 } else { (w >> j) & 1 })
{
    assert(i < 64 && j < 64 ==> ((w & !(1u64 << i)) >> j) & 1 == (if i == j { 0u64 } else { (w >> j) & 1 })) by (bit_vector);
}
pub proof fn lemma_bits0(i: u64)
    requires i < 64
    ensures !((0u64 >> i) & 1 == 1)
{
    assert(i < 64 ==> !((0u64 >> i) & 1 == 1)) by (bit_vector);
}
pub proof fn lemma_test_bit(w: u64, i: u64)
    requires i < 64
    ensures ((w & (1u64 << i)) != 0) == ((w >> i) & 1 == 1)
{
    assert(i < 64 ==> (((w & (1u64 << i)) != 0) == ((w >> i) & 1 == 1))) by (bit_vector);
}
pub proof fn lemma_shift_mask(n: usize)
    ensures (n >> 6) == n / 64, (n & 63) == n % 64
{
    assert((n >> 6) == n / 64 && (n & 63) == n % 64) by (bit_vector);
}

/// effect of `map[idx/64] |= 1 << (idx%64)` on the bit view
pub proof fn lemma_set_effect(m0: Seq<VAtomicU64>, m1: Seq<VAtomicU64>, idx: int)
    requires 0 <= idx < m0.len() * 64, m1.len() == m0.len(),
        m1[idx / 64].v == m0[idx / 64].v | (1u64 << ((idx % 64) as u64)),
        forall|w: int| 0 <= w < m0.len() && w != idx / 64 ==> m1[w] == m0[w],
    ensures forall|n: int| 0 <= n < m0.len() * 64 ==> #[trigger] bit(m1, n) == (n == idx || bit(m0, n)),
{
    assert forall|n: int| 0 <= n < m0.len() * 64 implies #[trigger] bit(m1, n) == (n == idx || bit(m0, n)) by {
        if n / 64 == idx / 64 {
            lemma_or_bit(m0[idx / 64].v, (idx % 64) as u64, (n % 64) as u64);
        }
    }
}
/// effect of `map[idx/64] &= !(1 << (idx%64))` on the bit view
pub proof fn lemma_reset_effect(m0: Seq<VAtomicU64>, m1: Seq<VAtomicU64>, idx: int)
    requires 0 <= idx < m0.len() * 64, m1.len() == m0.len(),
        m1[idx / 64].v == m0[idx / 64].v & !(1u64 << ((idx % 64) as u64)),
        forall|w: int| 0 <= w < m0.len() && w != idx / 64 ==> m1[w] == m0[w],
    ensures forall|n: int| 0 <= n < m0.len() * 64 ==> #[trigger] bit(m1, n) == (n != idx && bit(m0, n)),
{
    assert forall|n: int| 0 <= n < m0.len() * 64 implies #[trigger] bit(m1, n) == (n != idx && bit(m0, n)) by {
        if n / 64 == idx / 64 {
            lemma_andnot_bit(m0[idx / 64].v, (idx % 64) as u64, (n % 64) as u64);
        }
    }
}

impl AtomicBitmap {
    pub open spec fn wf(&self) -> bool {
        self.page_size.v >= 1
        && self.map@.len() * 64 >= self.size
        // no bit at or beyond the page count is ever set
        && forall|n: int| self.size <= n < self.map@.len() * 64 ==> !#[trigger] bit(self.map@, n)
    }
    /// abstract view: membership predicate of the set of dirty page numbers
    pub open spec fn dirty(&self, n: int) -> bool {
        0 <= n < self.size && bit(self.map@, n)
    }
    /// page range named by a byte range (empty for len == 0)
    pub open spec fn in_range(&self, start: int, len: int, n: int) -> bool {
        len > 0 && start / (self.page_size.v as int) <= n
        && n <= (if start + len - 1 > usize::MAX { usize::MAX as int } else { start + len - 1 }) / (self.page_size.v as int)
    }

//@fn src/bitmap/backend/atomic_bitmap.rs :: impl AtomicBitmap :: new :: tags=C09,C07
//@sub let map: Vec<AtomicU64> = \(0\.\.map_size\)\.map\(\|_x\| AtomicU64::new\(0\)\)\.collect\(\); => let map: Vec<VAtomicU64> = zero_words(map_size);
//@sub u64::BITS as usize => 64usize
//@spec
    requires page_size.v >= 1,
    ensures r.wf(), r.page_size == page_size, r.byte_size == byte_size,
        r.size == (byte_size + page_size.v - 1) / (page_size.v as int), // [C09,C05]
        forall|n: int| !#[trigger] r.dirty(n), // [C09]
//@end
//@before 1 /AtomicBitmap \{/
        proof {
            assert forall|n: int| 0 <= n < map@.len() * 64 implies !#[trigger] bit(map@, n) by {
                assert(map@[n / 64].v == 0);
                lemma_bits0((n % 64) as u64);
            }
        }
//@end
//@canary floor_div :: byte_size\.div_ceil\(page_size\.get\(\)\) => (byte_size / page_size.get())
//@endfn

//@fn src/bitmap/backend/atomic_bitmap.rs :: impl AtomicBitmap :: enlarge :: tags=C09,C07
//@sub self\.map\.resize_with\(map_size, Default::default\); => resize_with_zero(&mut self.map, map_size);
//@sub u64::BITS as usize => 64usize
//@spec
    requires old(self).wf(),
        old(self).byte_size + additional_size <= usize::MAX, // sizes are chosen by the VMM, not by the guest
        old(self).size == (old(self).byte_size + old(self).page_size.v - 1) / (old(self).page_size.v as int),
    ensures final(self).wf(), final(self).page_size == old(self).page_size,
        final(self).byte_size == old(self).byte_size + additional_size, // [C09]
        // the page count is recomputed from the TOTAL byte size
        final(self).size == (old(self).byte_size + additional_size + old(self).page_size.v - 1) / (old(self).page_size.v as int), // [C09,C05]
        // existing marks are kept and only clean pages are added
        forall|n: int| #[trigger] final(self).dirty(n) == old(self).dirty(n), // [C09]
//@end
//@after 1 /resize_with_zero/
        proof {
            let ps = self.page_size.v as int;
            vstd::arithmetic::div_mod::lemma_div_is_ordered(old(self).byte_size + ps - 1, old(self).byte_size + additional_size + ps - 1, ps);
            assert(old(self).size <= self.size);
            assert forall|n: int| 0 <= n < self.map@.len() * 64 implies #[trigger] bit(self.map@, n) == (n < old(self).map@.len() * 64 && bit(old(self).map@, n)) by {
                if n / 64 >= old(self).map@.len() { assert(self.map@[n / 64].v == 0); lemma_bits0((n % 64) as u64); }
            }
        }
//@end
//@canary accumulate :: self\.size = self\.byte_size\.div_ceil\(self\.page_size\.get\(\)\) => self.size = self.size + additional_size.div_ceil(self.page_size.get())
//@endfn

//@fn src/bitmap/backend/atomic_bitmap.rs :: impl AtomicBitmap :: is_bit_set :: tags=C09,C07
//@before 0 /-/
        proof { lemma_shift_mask(index); lemma_test_bit(self.map@[index as int / 64].v, (index % 64) as u64); }
//@end
//@spec
    requires self.wf(),
    ensures r == (index < self.size && bit(self.map@, index as int)), // [C09]
//@end
//@endfn

//@fn src/bitmap/backend/atomic_bitmap.rs :: impl AtomicBitmap :: is_addr_set :: tags=C09,C07
//@spec
    requires self.wf(),
    ensures r == self.dirty(addr as int / self.page_size.v as int), // [C09]
//@end
//@endfn

//@fn src/bitmap/backend/atomic_bitmap.rs :: impl AtomicBitmap :: len :: tags=C09
//@spec
    ensures r == self.size,
//@end
//@endfn
//@fn src/bitmap/backend/atomic_bitmap.rs :: impl AtomicBitmap :: byte_size :: tags=C09
//@spec
    ensures r == self.byte_size,
//@end
//@endfn

//@fn src/bitmap/backend/atomic_bitmap.rs :: impl AtomicBitmap :: set_bit :: tags=C09,C07
//@sub &self => &mut self
//@before 0 /-/
        proof { lemma_shift_mask(index); }
//@end
//@after 1 /self\.map\[index >> 6\]\.fetch_or/
        proof { lemma_set_effect(old(self).map@, self.map@, index as int); }
//@end
//@spec
    requires old(self).wf(),
    ensures final(self).wf(), final(self).size == old(self).size, final(self).byte_size == old(self).byte_size, final(self).page_size == old(self).page_size,
        forall|n: int| #[trigger] final(self).dirty(n) == (old(self).dirty(n) || (n == index && index < old(self).size)), // [C09,C16]
//@end
//@endfn

//@fn src/bitmap/backend/atomic_bitmap.rs :: impl AtomicBitmap :: reset_bit :: tags=C09,C07
//@sub &self => &mut self
//@before 0 /-/
        proof { lemma_shift_mask(index); }
//@end
//@after 1 /self\.map\[index >> 6\]\.fetch_and/
        proof { lemma_reset_effect(old(self).map@, self.map@, index as int); }
//@end
//@spec
    requires old(self).wf(),
    ensures final(self).wf(), final(self).size == old(self).size, final(self).byte_size == old(self).byte_size, final(self).page_size == old(self).page_size,
        forall|n: int| #[trigger] final(self).dirty(n) == (old(self).dirty(n) && n != index), // [C09,C16]
//@end
//@endfn

//@fn src/bitmap/backend/atomic_bitmap.rs :: impl AtomicBitmap :: set_reset_addr_range :: tags=C09,C07,C16,C05
//@sub &self => &mut self
//@sub for n in first_bit => for n in iter: first_bit
//@spec
    requires old(self).wf(),
    ensures final(self).wf(), final(self).size == old(self).size, final(self).byte_size == old(self).byte_size, final(self).page_size == old(self).page_size,
        // whole-view postcondition: exactly the pages the byte range overlaps (below the page count)
        // change, to `set`; every other page keeps its state
        forall|n: int| #[trigger] final(self).dirty(n) == (if old(self).in_range(start_addr as int, len as int, n) && n < old(self).size { set } else { old(self).dirty(n) }), // [C09,C16,C05]
        // an empty range names no page
        len == 0 ==> (forall|n: int| #[trigger] final(self).dirty(n) == old(self).dirty(n)), // [C18,C16]
//@end
//@loop 1
            invariant_except_break
                // pages first_bit .. first_bit + (iterations done) are below the page count and now equal `set`
                // work bound: the loop never iterates past the page count, however large the guest-chosen length
                iter.index() > 0 ==> first_bit + iter.index() - 1 < self.size, // [C07,C09]
                forall|k: int| 0 <= k < self.map@.len() * 64 ==> #[trigger] bit(self.map@, k) == (if first_bit <= k < first_bit + iter.index() { set } else { bit(old(self).map@, k) }),
            invariant
                self.wf(), self.size == old(self).size, self.byte_size == old(self).byte_size, self.page_size == old(self).page_size,
                self.map@.len() == old(self).map@.len(),
                len > 0, // [C09,C18,C16]
                first_bit == start_addr as int / (self.page_size.v as int),
                last_bit == (if start_addr + len - 1 > usize::MAX { usize::MAX as int } else { start_addr + len - 1 }) / (self.page_size.v as int),
                first_bit <= last_bit,
                iter.seq().len() == last_bit - first_bit + 1,
                forall|i: int| 0 <= i < iter.seq().len() ==> iter.seq()[i] == first_bit + i,
            ensures
                forall|k: int| 0 <= k < self.map@.len() * 64 ==> #[trigger] bit(self.map@, k) == (if first_bit <= k <= last_bit && k < self.size { set } else { bit(old(self).map@, k) }),
//@end
//@before 1 /for n in/
        proof {
            let sat = if start_addr + len - 1 > usize::MAX { usize::MAX as int } else { start_addr + len - 1 };
            vstd::arithmetic::div_mod::lemma_div_is_ordered(start_addr as int, sat, self.page_size.v as int);
        }
//@end
//@before 1 /if set \{/
            proof { lemma_shift_mask(n); }
            let ghost m_before = self.map@;
//@end
//@after 1 /fetch_or\(1 << \(n & 63\)/
                proof { lemma_set_effect(m_before, self.map@, n as int); }
//@end
//@after 1 /fetch_and\(!\(1 << \(n & 63\)\)/
                proof { lemma_reset_effect(m_before, self.map@, n as int); }
//@end
//@canary len_not_minus1 :: saturating_add\(len - 1\) => saturating_add(len)
//@canary first_plus1 :: iter: first_bit\.\.=last_bit => iter: (first_bit + 1)..=last_bit
//@endfn

//@fn src/bitmap/backend/atomic_bitmap.rs :: impl AtomicBitmap :: set_addr_range :: tags=C09,C07,C16,C05
//@sub &self => &mut self
//@spec
    requires old(self).wf(),
    ensures final(self).wf(), final(self).size == old(self).size, final(self).byte_size == old(self).byte_size, final(self).page_size == old(self).page_size,
        forall|n: int| #[trigger] final(self).dirty(n) == (old(self).dirty(n) || (old(self).in_range(start_addr as int, len as int, n) && n < old(self).size)), // [C09,C16,C05]
//@end
//@endfn

//@fn src/bitmap/backend/atomic_bitmap.rs :: impl AtomicBitmap :: reset_addr_range :: tags=C09,C07
//@sub &self => &mut self
//@spec
    requires old(self).wf(),
    ensures final(self).wf(), final(self).size == old(self).size, final(self).byte_size == old(self).byte_size, final(self).page_size == old(self).page_size,
        forall|n: int| #[trigger] final(self).dirty(n) == (old(self).dirty(n) && !(old(self).in_range(start_addr as int, len as int, n) && n < old(self).size)), // [C09]
//@end
//@endfn
}

// ------------------------------------------------------------------ Bitmap for AtomicBitmap
impl AtomicBitmap {
//@fn src/bitmap/backend/atomic_bitmap.rs :: impl Bitmap for AtomicBitmap :: mark_dirty :: tags=C09,C05,C16,C07
//@sub &self => &mut self
//@spec
    requires old(self).wf(),
    ensures final(self).wf(), final(self).size == old(self).size, final(self).page_size == old(self).page_size,
        forall|n: int| #[trigger] final(self).dirty(n) == (old(self).dirty(n) || (old(self).in_range(offset as int, len as int, n) && n < old(self).size)), // [C09,C05,C16]
//@end
//@endfn
//@fn src/bitmap/backend/atomic_bitmap.rs :: impl Bitmap for AtomicBitmap :: dirty_at :: tags=C09,C07
//@spec
    requires self.wf(),
    ensures r == self.dirty(offset as int / self.page_size.v as int), // [C09]
//@end
//@endfn
}

// ------------------------------------------------------------------ generic bitmap flavours
// An inner bitmap: R7 as for AtomicBitmap -- mark_dirty takes &mut self here so that its effect is
// visible: `marks()` is the ghost log of the calls received.  A wrapper must forward EXACTLY ONE call
// with the translated range (never zero: a skipped call is a lost mark, C05; never another range: C16).
pub trait InnerBitmap {
    spec fn marks(&self) -> Seq<(usize, usize)>;
    spec fn s_dirty_at(&self, offset: usize) -> bool;
    fn mark_dirty(&mut self, offset: usize, len: usize)
        ensures final(self).marks() == old(self).marks().push((offset, len));
    fn dirty_at(&self, offset: usize) -> (r: bool)
        ensures r == self.s_dirty_at(offset);
}
pub struct BaseSlice<B> { pub inner: B, pub base_offset: usize }
// the ghost view V-vol's contracts are written against (same definitions as common/bitmap_traits.rs)
pub trait HasBase {
    spec fn tracks(&self) -> bool;
    spec fn base(&self) -> int;
}
pub open spec fn shifted<X: HasBase, Y: HasBase>(child: &X, parent: &Y, off: int) -> bool {
    child.tracks() == parent.tracks()
    && (parent.tracks() ==> wrap(child.base()) == wrap(parent.base() + off))
}
impl<B> HasBase for BaseSlice<B> {
    open spec fn tracks(&self) -> bool { true }
    open spec fn base(&self) -> int { self.base_offset as int }
}
impl HasBase for () {
    open spec fn tracks(&self) -> bool { false }
    open spec fn base(&self) -> int { 0 }
}
impl<B: HasBase> HasBase for Option<B> {
    open spec fn tracks(&self) -> bool { self matches Some(b) && b.tracks() }
    open spec fn base(&self) -> int { if let Some(b) = self { b.base() } else { 0 } }
}
#[verifier::external_body]
pub fn clone_inner<B: Clone>(b: &B) -> (r: B) ensures r == *b { b.clone() }
pub open spec fn wadd(a: usize, b: usize) -> usize { ((a + b) % 0x1_0000_0000_0000_0000) as usize }

impl<B: InnerBitmap + Clone> BaseSlice<B> {
//@fn src/bitmap/backend/slice.rs :: impl<B> Bitmap for BaseSlice<B> :: slice_at :: tags=C09,C05,C07
//@sub self\.inner\.clone\(\) => clone_inner(&self.inner)
//@spec
    ensures r.inner == self.inner, r.base_offset == wadd(self.base_offset, offset), // [C09]
        shifted(&r, self, offset as int), // [C05,C09]
//@end
//@canary drop_base :: self\.base_offset\.wrapping_add\(offset\) => offset
//@endfn
//@fn src/bitmap/backend/slice.rs :: impl<B> Bitmap for BaseSlice<B> :: mark_dirty :: tags=C09,C05,C07
//@sub &self => &mut self
//@spec
    ensures final(self).base_offset == old(self).base_offset,
        final(self).inner.marks() == old(self).inner.marks().push((wadd(old(self).base_offset, offset), len)), // [C09,C05,C16,C08]
//@end
//@canary drop_base :: self\.base_offset\.wrapping_add\(offset\) => offset
//@endfn
//@fn src/bitmap/backend/slice.rs :: impl<B> Bitmap for BaseSlice<B> :: dirty_at :: tags=C09,C07
//@spec
    ensures r == self.inner.s_dirty_at(wadd(self.base_offset, offset)), // [C09]
//@end
//@endfn
}

// () : tracks nothing
pub struct UnitBitmap;
impl UnitBitmap {
//@fn src/bitmap/mod.rs :: impl Bitmap for \(\) :: mark_dirty :: tags=C09 :: id=bitmap::Unit::mark_dirty
//@endfn
//@fn src/bitmap/mod.rs :: impl Bitmap for \(\) :: dirty_at :: tags=C09 :: id=bitmap::Unit::dirty_at
//@spec
    ensures !r, // [C09]
//@end
//@endfn
}
// Option<B>
pub trait SliceableBitmap: InnerBitmap + HasBase + Sized {
    type S: HasBase;
    fn slice_at(&self, offset: usize) -> (r: Self::S)
        ensures shifted(&r, self, offset as int);
}
pub struct OptBitmap<B>(pub Option<B>);
//@fn src/bitmap/mod.rs :: impl<B: Bitmap> Bitmap for Option<B> :: mark_dirty :: tags=C09,C05,C07 :: id=bitmap::Option::mark_dirty
//@sub ^\s*fn mark_dirty\(&self => pub fn opt_mark_dirty<B: InnerBitmap>(self_: &mut Option<B>
//@sub = self \{ => = self_ {
//@spec
    ensures (*old(self_) is Some) == (*final(self_) is Some),
        *old(self_) matches Some(i) ==> (*final(self_)).unwrap().marks() == i.marks().push((offset, len)), // [C09,C05,C16]
//@end
//@endfn
//@fn src/bitmap/mod.rs :: impl<B: Bitmap> Bitmap for Option<B> :: dirty_at :: tags=C09,C07 :: id=bitmap::Option::dirty_at
//@sub ^\s*fn dirty_at\(&self => pub fn opt_dirty_at<B: InnerBitmap>(self_: &Option<B>
//@sub = self \{ => = self_ {
//@spec
    ensures r == (if let Some(i) = self_ { i.s_dirty_at(offset) } else { false }), // [C09]
//@end
//@endfn
//@fn src/bitmap/mod.rs :: impl<B: Bitmap> Bitmap for Option<B> :: slice_at :: tags=C09,C05,C07 :: id=bitmap::Option::slice_at
//@sub ^\s*fn slice_at\(&self => pub fn opt_slice_at<B: SliceableBitmap>(self_: &Option<B>
//@sub = self \{ => = self_ {
//@sub Option<<B as WithBitmapSlice>::S> => Option<B::S>
//@spec
    ensures shifted(&r, self_, offset as int), // [C05,C09]
//@end
//@endfn

proof fn canary_false()
    ensures false, // [CANARY]
{}

} // verus!
fn main() {}
