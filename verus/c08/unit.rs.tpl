// V-c08 (C08): trace lemma.  An interleaving of threads IS a sequence of atomic steps; K-c08 shows the
// steps AtomicBitmap issues are exactly: mark = fetch_or(single bit), clear-bit = fetch_and(!bit),
// harvest = fetch_and(0) returning the old word, reset = store(0), clone = load.  Over ANY sequence of
// such steps (any number of threads, any schedule) no mark is lost and no unmarked page is reported.
// This file contains no code of the crate: it is the proof that the contract K-c08 checks suffices.
#![allow(unused_imports, dead_code)]
use vstd::prelude::*;

verus! {

pub enum Step {
    FetchOr { w: int, m: u64 },   // returns old word
    FetchAnd { w: int, m: u64 },  // returns old word
    Store { w: int, v: u64 },
    Load { w: int },
}

pub open spec fn bit(x: u64, i: u64) -> bool { (x >> i) & 1 == 1 }

/// memory after one step
pub open spec fn step(mem: Seq<u64>, s: Step) -> Seq<u64> {
    match s {
        Step::FetchOr { w, m } => if 0 <= w < mem.len() { mem.update(w, mem[w] | m) } else { mem },
        Step::FetchAnd { w, m } => if 0 <= w < mem.len() { mem.update(w, mem[w] & m) } else { mem },
        Step::Store { w, v } => if 0 <= w < mem.len() { mem.update(w, v) } else { mem },
        Step::Load { w } => mem,
    }
}
/// memory after the first k steps of a trace
pub open spec fn run(mem0: Seq<u64>, t: Seq<Step>, k: int) -> Seq<u64>
    decreases k
{
    if k <= 0 { mem0 } else { step(run(mem0, t, k - 1), t[k - 1]) }
}
/// the value an RMW step at position k returns (the word just before it)
pub open spec fn returned(mem0: Seq<u64>, t: Seq<Step>, k: int) -> u64 {
    match t[k] {
        Step::FetchOr { w, m } => run(mem0, t, k)[w],
        Step::FetchAnd { w, m } => run(mem0, t, k)[w],
        Step::Load { w } => run(mem0, t, k)[w],
        Step::Store { w, v } => 0,
    }
}
/// what a step does to page (w, i): Some(true) sets it, Some(false) clears it, None leaves it
pub open spec fn effect(s: Step, w: int, i: u64) -> Option<bool> {
    match s {
        Step::FetchOr { w: w2, m } => if w2 == w && bit(m, i) { Some(true) } else { None },
        Step::FetchAnd { w: w2, m } => if w2 == w && !bit(m, i) { Some(false) } else { None },
        Step::Store { w: w2, v } => if w2 == w { Some(bit(v, i)) } else { None },
        Step::Load { w: w2 } => None,
    }
}
pub open spec fn is_mark(s: Step, w: int, i: u64) -> bool { s matches Step::FetchOr { w: w2, m } && w2 == w && bit(m, i) }
pub open spec fn is_harvest(s: Step, w: int) -> bool { s matches Step::FetchAnd { w: w2, m } && w2 == w && m == 0 }

proof fn lemma_bits(x: u64, m: u64, i: u64)
    requires i < 64
    ensures bit(x | m, i) == (bit(x, i) || bit(m, i)), bit(x & m, i) == (bit(x, i) && bit(m, i)), !bit(0u64, i),
{
    assert(i < 64 ==> (((x | m) >> i) & 1 == 1) == ((((x >> i) & 1) == 1) || (((m >> i) & 1) == 1))) by (bit_vector);
    assert(i < 64 ==> (((x & m) >> i) & 1 == 1) == ((((x >> i) & 1) == 1) && (((m >> i) & 1) == 1))) by (bit_vector);
    assert(i < 64 ==> !(((0u64 >> i) & 1) == 1)) by (bit_vector);
}

/// one step changes page (w,i) exactly as `effect` says
pub proof fn lemma_step_effect(mem: Seq<u64>, s: Step, w: int, i: u64)
    requires 0 <= w < mem.len(), i < 64
    ensures step(mem, s).len() == mem.len(),
        bit(step(mem, s)[w], i) == (match effect(s, w, i) { Some(b) => b, None => bit(mem[w], i) }),
{
    match s {
        Step::FetchOr { w: w2, m } => { lemma_bits(mem[w], m, i); }
        Step::FetchAnd { w: w2, m } => { lemma_bits(mem[w], m, i); }
        _ => {}
    }
}
pub proof fn lemma_run_len(mem0: Seq<u64>, t: Seq<Step>, k: int)
    requires 0 <= k <= t.len()
    ensures run(mem0, t, k).len() == mem0.len()
    decreases k
{
    if k > 0 { lemma_run_len(mem0, t, k - 1); }
}

/// INVARIANT: page (w,i) is set after k steps  <=>  its last event before k is a set
/// (or it had no event and was set initially).  `last_ev` finds that event.
pub open spec fn last_ev(t: Seq<Step>, w: int, i: u64, k: int) -> int
    decreases k
{
    if k <= 0 { -1 } else if effect(t[k - 1], w, i) is Some { k - 1 } else { last_ev(t, w, i, k - 1) }
}
pub proof fn lemma_last_ev(t: Seq<Step>, w: int, i: u64, k: int)
    requires 0 <= k <= t.len()
    ensures -1 <= last_ev(t, w, i, k) < k,
        last_ev(t, w, i, k) >= 0 ==> effect(t[last_ev(t, w, i, k)], w, i) is Some,
        forall|j: int| last_ev(t, w, i, k) < j < k ==> effect(#[trigger] t[j], w, i) is None,
    decreases k
{
    if k > 0 && !(effect(t[k - 1], w, i) is Some) { lemma_last_ev(t, w, i, k - 1); }
}
pub proof fn lemma_invariant(mem0: Seq<u64>, t: Seq<Step>, w: int, i: u64, k: int)
    requires 0 <= k <= t.len(), 0 <= w < mem0.len(), i < 64
    ensures bit(run(mem0, t, k)[w], i) == (if last_ev(t, w, i, k) >= 0 { effect(t[last_ev(t, w, i, k)], w, i) == Some(true) } else { bit(mem0[w], i) }), // [C08]
    decreases k
{
    if k > 0 {
        lemma_invariant(mem0, t, w, i, k - 1);
        lemma_run_len(mem0, t, k - 1);
        lemma_step_effect(run(mem0, t, k - 1), t[k - 1], w, i);
    }
}

/// THEOREM (no lost mark): take any trace and any mark of page (w,i) at position p.  Then either the
/// page is still set at the end, or there is a later step q that cleared it -- and if that step is a
/// harvest (fetch_and(0)), the value it RETURNED contains the page.  (If q is a reset_bit / reset()
/// store the mark was cleared on purpose, which the property allows.)
pub proof fn theorem_no_lost_mark(mem0: Seq<u64>, t: Seq<Step>, w: int, i: u64, p: int)
    requires 0 <= p < t.len(), 0 <= w < mem0.len(), i < 64, is_mark(t[p], w, i)
    ensures
        bit(run(mem0, t, t.len() as int)[w], i)
        || exists|q: int| p < q < t.len() && effect(#[trigger] t[q], w, i) == Some(false)
              && (forall|j: int| p < j < q ==> !(effect(#[trigger] t[j], w, i) == Some(false)))
              && (is_harvest(t[q], w) ==> bit(returned(mem0, t, q), i)), // [C08]
{
    lemma_first_clear(mem0, t, w, i, p, t.len() as int);
}
/// induction: looking at the window (p, k): either no clear happened and the page is set after k
/// steps, or the first clear q in the window saw the page set
proof fn lemma_first_clear(mem0: Seq<u64>, t: Seq<Step>, w: int, i: u64, p: int, k: int)
    requires 0 <= p < k <= t.len(), 0 <= w < mem0.len(), i < 64, is_mark(t[p], w, i)
    ensures
        ((forall|j: int| p < j < k ==> !(effect(#[trigger] t[j], w, i) == Some(false))) && bit(run(mem0, t, k)[w], i))
        || exists|q: int| p < q < k && effect(#[trigger] t[q], w, i) == Some(false)
              && (forall|j: int| p < j < q ==> !(effect(#[trigger] t[j], w, i) == Some(false)))
              && (is_harvest(t[q], w) ==> bit(returned(mem0, t, q), i)),
    decreases k - p
{
    lemma_run_len(mem0, t, k - 1);
    lemma_step_effect(run(mem0, t, k - 1), t[k - 1], w, i);
    if k == p + 1 {
        // the mark itself has just been applied
    } else {
        lemma_first_clear(mem0, t, w, i, p, k - 1);
        if (forall|j: int| p < j < k - 1 ==> !(effect(#[trigger] t[j], w, i) == Some(false))) && bit(run(mem0, t, k - 1)[w], i) {
            if effect(t[k - 1], w, i) == Some(false) {
                // first clear is at q = k-1 and it saw the page set
                let q = k - 1;
                assert(effect(t[q], w, i) == Some(false));
                assert(is_harvest(t[q], w) ==> returned(mem0, t, q) == run(mem0, t, q)[w]);
            }
        }
    }
}

/// THEOREM (no phantom page): a harvest reports page (w,i) only if the page was set initially or some
/// earlier step set it and nothing cleared it in between.
pub proof fn theorem_no_phantom(mem0: Seq<u64>, t: Seq<Step>, w: int, i: u64, q: int)
    requires 0 <= q < t.len(), 0 <= w < mem0.len(), i < 64, is_harvest(t[q], w), bit(returned(mem0, t, q), i)
    ensures
        (last_ev(t, w, i, q) < 0 && bit(mem0[w], i))
        || (last_ev(t, w, i, q) >= 0 && effect(t[last_ev(t, w, i, q)], w, i) == Some(true)), // [C08]
{
    lemma_invariant(mem0, t, w, i, q);
}

/// two marks in the same word commute and neither erases the other
pub proof fn theorem_marks_commute(x: u64, m1: u64, m2: u64)
    ensures (x | m1) | m2 == (x | m2) | m1, ((x | m1) | m2) & m1 == m1, ((x | m1) | m2) & m2 == m2, // [C08]
{
    assert((x | m1) | m2 == (x | m2) | m1 && ((x | m1) | m2) & m1 == m1 && ((x | m1) | m2) & m2 == m2) by (bit_vector);
}

/// NON-EXAMPLE: with the alphabet load ; store (a fetch_or split in two) a mark IS lost -- thread A
/// loads, thread B marks bit 1, thread A stores its stale value | bit 0.  This is why K-c08 insists
/// on fetch_or / fetch_and(0).
pub proof fn nonexample_load_store_loses_a_mark()
    ensures ({
        let t = seq![Step::Load { w: 0 }, Step::FetchOr { w: 0, m: 2u64 }, Step::Store { w: 0, v: 1u64 }];
        !bit(run(seq![0u64], t, 3)[0], 1) && is_mark(t[1], 0, 1)
    }),
{
    let t = seq![Step::Load { w: 0 }, Step::FetchOr { w: 0, m: 2u64 }, Step::Store { w: 0, v: 1u64 }];
    let m0 = seq![0u64];
    assert(run(m0, t, 0) == m0);
    assert(run(m0, t, 1) == m0);
    assert(run(m0, t, 2) == m0.update(0, 0u64 | 2u64));
    assert(run(m0, t, 3) == m0.update(0, 0u64 | 2u64).update(0, 1u64));
    assert(run(m0, t, 3)[0] == 1u64);
    assert(!(((1u64 >> 1u64) & 1) == 1)) by (bit_vector);
    assert(((2u64 >> 1u64) & 1) == 1) by (bit_vector);
}

proof fn canary_false()
    ensures false, // [CANARY]
{}

} // verus!
fn main() {}
