// V-mmapcol: mmap/mod.rs collection under contract (C10 C02 C15 C07): GuestRegionMmap::new,
// from_arc_regions, insert_region, remove_region, find_region, check_file_offset.
#![allow(unused_imports, dead_code, unused_variables, unused_unsafe, unused_mut, unused_parens)]
use vstd::prelude::*;
use std::sync::Arc;
use std::marker::PhantomData;

verus! {

//@include ../common/ptr.rs
//@include ../common/stdnum.rs
//@include ../common/stdopt.rs
//@include ../common/address.rs


#[derive(Debug)]
pub enum MmapRegionError { InvalidOffsetLength, MappingPastEof, SeekEnd(i32), SeekStart(i32) }
#[derive(Debug)]
pub enum Error {
    InvalidGuestRegion,
    MmapRegion(MmapRegionError),
    NoMemoryRegion,
    MemoryRegionOverlap,
    UnsortedMemoryRegions,
}

// file handle stand-in: seeking to the end reports the (arbitrary) file size or fails
pub struct FileH { pub size: u64, pub seek_fails: bool, pub rewind_fails: bool }
pub enum SeekFrom { Start(u64), End(i64), Current(i64) }
impl FileH {
    #[verifier::external_body]
    pub fn seek(&mut self, pos: SeekFrom) -> (r: core::result::Result<u64, i32>)
        ensures *final(self) == *old(self), old(self).seek_fails ==> r is Err, !old(self).seek_fails && pos == SeekFrom::End(0) ==> r == Ok::<u64, i32>(old(self).size)
    { unimplemented!() }
    #[verifier::external_body]
    pub fn rewind(&mut self) -> (r: core::result::Result<(), i32>)
        ensures *final(self) == *old(self), old(self).rewind_fails == (r is Err)
    { unimplemented!() }
}
pub struct FileOffset { pub fh: FileH, pub start: u64 }
impl FileOffset {
    pub fn file(&self) -> (r: FileH) ensures r == self.fh { FileH { size: self.fh.size, seek_fails: self.fh.seek_fails, rewind_fails: self.fh.rewind_fails } }
    pub fn start(&self) -> (r: u64) ensures r == self.start { self.start }
}

//@fn src/mmap/mod.rs :: - :: check_file_offset :: tags=C15,C07
//@sub result::Result<\(\), MmapRegionError> => core::result::Result<(), MmapRegionError>
//@sub \.map_err\(MmapRegionError::SeekEnd\) => .map_err(|e: i32| -> (q: MmapRegionError) ensures q == MmapRegionError::SeekEnd(e) { MmapRegionError::SeekEnd(e) })
//@sub \.map_err\(MmapRegionError::SeekStart\) => .map_err(|e: i32| -> (q: MmapRegionError) ensures q == MmapRegionError::SeekStart(e) { MmapRegionError::SeekStart(e) })
//@spec
    ensures
        file_offset.start + size > u64::MAX ==> r matches Err(MmapRegionError::InvalidOffsetLength), // [C15]
        file_offset.start + size <= u64::MAX && file_offset.fh.seek_fails ==> r matches Err(MmapRegionError::SeekEnd(_)), // [C15]
        file_offset.start + size <= u64::MAX && !file_offset.fh.seek_fails && file_offset.fh.rewind_fails ==> r matches Err(MmapRegionError::SeekStart(_)), // [C15]
        file_offset.start + size <= u64::MAX && !file_offset.fh.seek_fails && !file_offset.fh.rewind_fails ==>
            (if file_offset.fh.size < file_offset.start + size { r matches Err(MmapRegionError::MappingPastEof) } else { r is Ok }), // [C15]
//@end
//@canary wrong_var :: filesize < end => filesize < start
//@endfn

pub trait Bitmap {}
/// the mapping, opaque here: only its size matters to the collection
pub struct MmapRegion<B> { pub sz: usize, pub _b: PhantomData<B> }
impl<B> MmapRegion<B> {
    pub fn size(&self) -> (r: usize) ensures r == self.sz { self.sz }
    // creation of the mapping itself is K-region's subject (mmap model); here: a mapping of `size` bytes or an error
    #[verifier::external_body]
    pub fn new(size: usize) -> (r: core::result::Result<MmapRegion<B>, MmapRegionError>)
        ensures r matches Ok(m) ==> m.sz == size
    { unimplemented!() }
    #[verifier::external_body]
    pub fn from_file(file_offset: FileOffset, size: usize) -> (r: core::result::Result<MmapRegion<B>, MmapRegionError>)
        ensures r matches Ok(m) ==> m.sz == size
    { unimplemented!() }
}
impl FileOffset {
    #[verifier::external_body]
    pub fn clone(&self) -> (r: FileOffset) ensures r == *self { unimplemented!() }
}
pub trait NewBitmap: Bitmap {}

//@item src/mmap/mod.rs :: - :: pub struct GuestRegionMmap<B = \(\)> :: pubfields
//@enditem

impl<B: Bitmap> GuestRegionMmap<B> {
    pub open spec fn s_start(&self) -> int { self.guest_base.0 as int }
    pub open spec fn s_len(&self) -> int { self.mapping.sz as int }
    pub open spec fn s_last(&self) -> int { self.s_start() + self.s_len() - 1 }
    /// region type invariant: non-empty (mmap refuses size 0) and not wrapping (GuestRegionMmap::new)
    pub open spec fn wf(&self) -> bool { 0 < self.s_len() && self.s_start() + self.s_len() <= u64::MAX }
    pub open spec fn contains(&self, a: int) -> bool { self.s_start() <= a <= self.s_last() }

//@fn src/mmap/mod.rs :: impl<B: Bitmap> GuestRegionMmap<B> :: new :: tags=C10,C07,C15
//@sub result::Result<Self, Error> => core::result::Result<Self, Error>
//@spec
    ensures
        guest_base.0 + mapping.sz > u64::MAX ==> r matches Err(Error::InvalidGuestRegion), // [C10,C15]
        guest_base.0 + mapping.sz <= u64::MAX ==> (r matches Ok(reg) && reg.guest_base == guest_base && reg.mapping == mapping), // [C10,C15]
        (r matches Ok(reg) && mapping.sz > 0) ==> r.unwrap().wf(), // [C10,C02]
//@end
//@canary off_by_one :: checked_add\(mapping\.size\(\) as u64\) => checked_add((mapping.size() as u64).saturating_sub(1))
//@endfn

}
impl<B: NewBitmap> GuestRegionMmap<B> {
//@fn src/mmap/mod.rs :: impl<B: NewBitmap> GuestRegionMmap<B> :: from_range :: tags=C10,C15,C07
//@sub result::Result<Self, Error> => core::result::Result<Self, Error>
//@sub \.map_err\(Error::MmapRegion\) => .map_err(|e: MmapRegionError| -> (q: Error) ensures q == Error::MmapRegion(e) { Error::MmapRegion(e) })
//@spec
    ensures
        // whatever way a region is created, one whose end would exceed the address space is refused
        r matches Ok(reg) ==> reg.guest_base == addr && reg.mapping.sz == size && addr.0 + size <= u64::MAX, // [C10,C15]
        addr.0 + size > u64::MAX ==> r is Err, // [C10,C15]
//@end
//@endfn
}
impl<B: Bitmap> GuestRegionMmap<B> {
//@fn src/mmap/mod.rs :: impl<B: Bitmap> GuestMemoryRegion for GuestRegionMmap<B> :: len :: tags=C02
//@spec
    ensures r == self.s_len(),
//@end
//@endfn
//@fn src/mmap/mod.rs :: impl<B: Bitmap> GuestMemoryRegion for GuestRegionMmap<B> :: start_addr :: tags=C02
//@spec
    ensures r.0 == self.s_start(),
//@end
//@endfn
    /// GuestMemoryRegion::last_addr is a trait default, verified in V-gm against this same contract
    pub fn last_addr(&self) -> (r: GuestAddress)
        requires self.wf(),
        ensures r.0 == self.s_last(),
    { self.start_addr().unchecked_add(self.len() - 1) }
}

// ------------------------------------------------------------------ R6: std algorithms (assumed contracts, cross-checked by K-stdalg)
pub open spec fn starts_sorted<B: Bitmap>(s: Seq<Arc<GuestRegionMmap<B>>>) -> bool {
    forall|i: int, j: int| 0 <= i < j < s.len() ==> s[i].s_start() <= s[j].s_start()
}
/// slice::binary_search_by_key(&key, |x| x.start_addr())
#[verifier::external_body]
pub fn bsearch_start<B: Bitmap>(v: &Vec<Arc<GuestRegionMmap<B>>>, key: &GuestAddress) -> (r: core::result::Result<usize, usize>)
    requires starts_sorted(v@),
    ensures
        r matches Ok(i) ==> i < v@.len() && v@[i as int].s_start() == key.0,
        r matches Err(i) ==> i <= v@.len()
            && (forall|j: int| 0 <= j < i ==> v@[j].s_start() < key.0)
            && (forall|j: int| i <= j < v@.len() ==> v@[j].s_start() > key.0),
{ unimplemented!() }
/// `a` is a rearrangement of `b`: p maps positions of a injectively onto positions of b
pub open spec fn perm_witness<T>(a: Seq<T>, b: Seq<T>, p: Seq<int>) -> bool {
    a.len() == b.len() && p.len() == a.len()
    && (forall|i: int| 0 <= i < p.len() ==> 0 <= #[trigger] p[i] < b.len())
    && (forall|i: int, j: int| 0 <= i < j < p.len() ==> p[i] != p[j])
    && (forall|i: int| 0 <= i < a.len() ==> #[trigger] a[i] == b[p[i]])
}
pub open spec fn is_perm_of<T>(a: Seq<T>, b: Seq<T>) -> bool { exists|p: Seq<int>| perm_witness(a, b, p) }
/// slice::sort_by_key(|x| x.start_addr()): sorted by start, a permutation of the input
#[verifier::external_body]
pub fn sort_by_start<B: Bitmap>(v: &mut Vec<Arc<GuestRegionMmap<B>>>)
    ensures starts_sorted(final(v)@), is_perm_of(final(v)@, old(v)@),
{ unimplemented!() }

/// R8: Arc::as_ref / deref
pub fn arc_ref<T>(a: &Arc<T>) -> (r: &T) ensures *r == **a { &**a }
/// R8: Vec<Arc<T>>::clone() -- a new vector of handles to the same regions (Arc::clone shares, never copies)
#[verifier::external_body]
pub fn clone_arc_vec<T>(v: &Vec<Arc<T>>) -> (r: Vec<Arc<T>>)
    ensures r@ == v@
{ v.clone() }

#[verifier::reject_recursive_types(T)]
#[verifier::external_type_specification]
#[verifier::external_body]
pub struct ExWindows<'a, T: 'a>(core::slice::Windows<'a, T>);
pub uninterp spec fn win_seq<'a, T>(w: &core::slice::Windows<'a, T>) -> Seq<T>;
pub uninterp spec fn win_pos<'a, T>(w: &core::slice::Windows<'a, T>) -> int;
pub uninterp spec fn win_n<'a, T>(w: &core::slice::Windows<'a, T>) -> int;
pub assume_specification<T> [<[T]>::windows] (s: &[T], n: usize) -> (w: core::slice::Windows<'_, T>)
    requires n > 0, // [C07]
    ensures win_seq(&w) == s@, win_pos(&w) == 0, win_n(&w) == n;
pub assume_specification<'a, T> [<core::slice::Windows<'a, T> as Iterator>::next] (w: &mut core::slice::Windows<'a, T>) -> (r: Option<&'a [T]>)
    ensures
        win_seq(final(w)) == win_seq(old(w)), win_n(final(w)) == win_n(old(w)),
        win_pos(old(w)) + win_n(old(w)) <= win_seq(old(w)).len() ==> (r matches Some(sl)
            && sl@ == win_seq(old(w)).subrange(win_pos(old(w)), win_pos(old(w)) + win_n(old(w)))
            && win_pos(final(w)) == win_pos(old(w)) + 1),
        win_pos(old(w)) + win_n(old(w)) > win_seq(old(w)).len() ==> r is None && win_pos(final(w)) == win_pos(old(w));

//@item src/mmap/mod.rs :: - :: pub struct GuestMemoryMmap<B = \(\)> :: pubfields
//@enditem

/// the data-structure invariant of the collection: sorted by start and pairwise disjoint
pub open spec fn sorted_disjoint<B: Bitmap>(s: Seq<Arc<GuestRegionMmap<B>>>) -> bool {
    forall|i: int, j: int| 0 <= i < j < s.len() ==> s[i].s_last() < s[j].s_start()
}
pub open spec fn adjacent_ok<B: Bitmap>(s: Seq<Arc<GuestRegionMmap<B>>>, k: int) -> bool {
    forall|i: int| 0 <= i < k && i + 1 < s.len() ==> (#[trigger] s[i]).s_start() <= s[i + 1].s_start() && s[i].s_last() < s[i + 1].s_start()
}
pub open spec fn all_wf<B: Bitmap>(s: Seq<Arc<GuestRegionMmap<B>>>) -> bool {
    forall|i: int| 0 <= i < s.len() ==> (#[trigger] s[i]).wf()
}
/// adjacent pairs ordered and disjoint ==> every pair is (induction over the distance)
pub proof fn lemma_adjacent_to_pairwise<B: Bitmap>(s: Seq<Arc<GuestRegionMmap<B>>>)
    requires all_wf(s), adjacent_ok(s, s.len() as int),
    ensures sorted_disjoint(s),
{
    assert forall|i: int, j: int| 0 <= i < j < s.len() implies s[i].s_last() < s[j].s_start() by {
        lemma_chain(s, i, j);
    }
}
proof fn lemma_chain<B: Bitmap>(s: Seq<Arc<GuestRegionMmap<B>>>, i: int, j: int)
    requires all_wf(s), adjacent_ok(s, s.len() as int), 0 <= i < j < s.len(),
    ensures s[i].s_last() < s[j].s_start(),
    decreases j - i,
{
    if j == i + 1 {
    } else {
        lemma_chain(s, i, j - 1);
        assert(s[j - 1].wf());
        assert(s[j - 1].s_start() <= s[j - 1].s_last());
    }
}

pub open spec fn disjoint<B: Bitmap>(a: &GuestRegionMmap<B>, b: &GuestRegionMmap<B>) -> bool {
    a.s_last() < b.s_start() || b.s_last() < a.s_start()
}
/// inserting a region that collides with none of a sorted-disjoint collection and sorting by start
/// yields a sorted-disjoint collection
pub proof fn lemma_insert_sorted<B: Bitmap>(s0: Seq<Arc<GuestRegionMmap<B>>>, region: Arc<GuestRegionMmap<B>>, s2: Seq<Arc<GuestRegionMmap<B>>>)
    requires all_wf(s0), sorted_disjoint(s0), region.wf(), starts_sorted(s2), is_perm_of(s2, s0.push(region)),
    ensures all_wf(s2),
        (forall|i: int| 0 <= i < s0.len() ==> disjoint(&*s0[i], &*region)) ==> sorted_disjoint(s2),
{
    let s1 = s0.push(region);
    let p = choose|p: Seq<int>| perm_witness(s2, s1, p);
    assert forall|i: int| 0 <= i < s2.len() implies (#[trigger] s2[i]).wf() by {
        assert(s2[i] == s1[p[i]]);
        if p[i] < s0.len() { assert(s0[p[i]].wf()); }
    }
    if forall|i: int| 0 <= i < s0.len() ==> disjoint(&*s0[i], &*region) {
        assert forall|k: int| 0 <= k < s2.len() && k + 1 < s2.len() implies (#[trigger] s2[k]).s_start() <= s2[k + 1].s_start() && s2[k].s_last() < s2[k + 1].s_start() by {
            let i = p[k]; let j = p[k + 1];
            assert(i != j);
            assert(s2[k] == s1[i] && s2[k + 1] == s1[j]);
            assert(s2[k].wf() && s2[k + 1].wf());
            if i < s0.len() && j < s0.len() {
                if i < j { assert(s0[i].s_last() < s0[j].s_start()); } else { assert(s0[j].s_last() < s0[i].s_start()); }
            } else if i < s0.len() {
                assert(disjoint(&*s0[i], &*region));
            } else {
                assert(disjoint(&*s0[j], &*region));
            }
        }
        lemma_adjacent_to_pairwise(s2);
    }
}

impl<B: Bitmap> GuestMemoryMmap<B> {
    pub open spec fn wf(&self) -> bool {
        self.regions@.len() > 0 && all_wf(self.regions@) && sorted_disjoint(self.regions@)
    }

//@fn src/mmap/mod.rs :: impl<B: Bitmap> GuestMemoryMmap<B> :: from_arc_regions :: tags=C10,C07
//@sub result::Result<Self, Error> => core::result::Result<Self, Error>
//@sub for window in regions\.windows\(2\) \{ => let mut it = regions.windows(2); while let Some(window) = it.next() {
//@spec
    requires all_wf(regions@),
    ensures
        regions@.len() == 0 ==> r matches Err(Error::NoMemoryRegion), // [C10]
        (r is Ok) == (regions@.len() > 0 && sorted_disjoint(regions@)), // [C10]
        r matches Ok(m) ==> m.regions@ == regions@ && m.wf(), // [C10,C02]
        // the first offending adjacent pair decides which error is reported
        r matches Err(Error::UnsortedMemoryRegions) ==> exists|k: int| 0 <= k && k + 1 < regions@.len() && adjacent_ok(regions@, k) && regions@[k].s_start() > regions@[k + 1].s_start(), // [C10]
        r matches Err(Error::MemoryRegionOverlap) ==> exists|k: int| 0 <= k && k + 1 < regions@.len() && adjacent_ok(regions@, k) && regions@[k].s_start() <= regions@[k + 1].s_start() && regions@[k].s_last() >= regions@[k + 1].s_start(), // [C10]
        r is Err ==> (r matches Err(Error::NoMemoryRegion) || r matches Err(Error::UnsortedMemoryRegions) || r matches Err(Error::MemoryRegionOverlap)), // [C10]
        r matches Err(Error::NoMemoryRegion) ==> regions@.len() == 0, // [C10]
//@end
//@loop 1
        invariant
            all_wf(regions@), regions@.len() > 0,
            win_seq(&it) == regions@, win_n(&it) == 2,
            0 <= win_pos(&it) <= regions@.len(),
            adjacent_ok(regions@, win_pos(&it)),
        ensures
            win_pos(&it) + 2 > regions@.len(),
        decreases regions@.len() - win_pos(&it),
//@end
//@before 1 /let prev = /
            assert(window@.len() == 2 && window@[0] == regions@[win_pos(&it) - 1] && window@[1] == regions@[win_pos(&it)]);
//@end
//@after 1 /MemoryRegionOverlap\);\s*\n\s*\}/
            assert(regions@[win_pos(&it) - 1].s_start() <= regions@[win_pos(&it)].s_start() && regions@[win_pos(&it) - 1].s_last() < regions@[win_pos(&it)].s_start());
//@end
//@before 1 /Ok\(Self \{ regions \}\)/
        proof {
            assert(adjacent_ok(regions@, regions@.len() as int));
            lemma_adjacent_to_pairwise(regions@);
        }
//@end
//@canary gt_not_ge :: prev\.last_addr\(\) >= => prev.last_addr() >
//@endfn

//@fn src/mmap/mod.rs :: impl<B: Bitmap> GuestMemoryMmap<B> :: insert_region :: tags=C10,C07
//@sub result::Result<GuestMemoryMmap<B>, Error> => core::result::Result<GuestMemoryMmap<B>, Error>
//@sub regions\.sort_by_key\(\|x\| x\.start_addr\(\)\); => sort_by_start(&mut regions);
//@sub self\.regions\.clone\(\) => clone_arc_vec(&self.regions)
//@spec
    requires self.wf(), region.wf(),
    ensures
        // the new map is valid and holds exactly the old regions plus the new one
        r matches Ok(m) ==> m.wf() && is_perm_of(m.regions@, self.regions@.push(region)), // [C10,C02]
        r is Err ==> r matches Err(Error::MemoryRegionOverlap), // [C10]
        // it succeeds whenever the new region collides with none of the old ones (so it fails only
        // if the region really overlaps, or duplicates the start of, an existing one)
        (forall|i: int| 0 <= i < self.regions@.len() ==> disjoint(&*self.regions@[i], &*region)) ==> r is Ok, // [C10]
//@end
//@after 1 /regions\.push\(region\);/
        let ghost pushed = regions@;
        assert(pushed =~= self.regions@.push(region));
//@end
//@before 1 /Self::from_arc_regions\(regions\)/
        proof { lemma_insert_sorted(self.regions@, region, regions@); }
//@end
//@endfn

//@fn src/mmap/mod.rs :: impl<B: Bitmap> GuestMemoryMmap<B> :: remove_region :: tags=C10,C07
//@sub result::Result<\(GuestMemoryMmap<B>, Arc<GuestRegionMmap<B>>\), Error> => core::result::Result<(GuestMemoryMmap<B>, Arc<GuestRegionMmap<B>>), Error>
//@sub self\.regions\.binary_search_by_key\(&base, \|x\| x\.start_addr\(\)\) => bsearch_start(&self.regions, &base)
//@sub self\.regions\.clone\(\) => clone_arc_vec(&self.regions)
//@before 0 /-/
        proof { lemma_starts_strict(self.regions@); }
//@end
//@spec
    requires self.wf(),
    ensures
        (r is Ok) == (exists|i: int| 0 <= i < self.regions@.len() && self.regions@[i].s_start() == base.0 && self.regions@[i].s_len() == size), // [C10]
        r matches Ok(pair) ==> (exists|i: int| 0 <= i < self.regions@.len() && self.regions@[i].s_start() == base.0 && self.regions@[i].s_len() == size
            && pair.1 == self.regions@[i] && pair.0.regions@ == self.regions@.remove(i))
            && all_wf(pair.0.regions@) && sorted_disjoint(pair.0.regions@), // [C10,C02]
        r is Err ==> r matches Err(Error::InvalidGuestRegion), // [C10]
//@end
//@canary ignore_size :: as GuestUsize == size => as GuestUsize <= size
//@endfn
}

pub proof fn lemma_starts_strict<B: Bitmap>(s: Seq<Arc<GuestRegionMmap<B>>>)
    requires all_wf(s), sorted_disjoint(s),
    ensures starts_sorted(s), forall|i: int, j: int| 0 <= i < j < s.len() ==> s[i].s_start() < s[j].s_start(),
{
    assert forall|i: int, j: int| 0 <= i < j < s.len() implies s[i].s_start() < s[j].s_start() by {
        assert(s[i].wf());
    }
}

/// in a sorted-disjoint collection an address lies in at most one region
pub proof fn lemma_unique_owner<B: Bitmap>(s: Seq<Arc<GuestRegionMmap<B>>>, i: int, j: int, a: int)
    requires all_wf(s), sorted_disjoint(s), 0 <= i < s.len(), 0 <= j < s.len(), s[i].contains(a), s[j].contains(a),
    ensures i == j,
{
    if i < j { assert(s[i].s_last() < s[j].s_start()); }
    if j < i { assert(s[j].s_last() < s[i].s_start()); }
}

impl<B: Bitmap> GuestMemoryMmap<B> {
    /// the lookup function V-gm's contracts are written against (GuestMemory::s_find)
    pub open spec fn s_find(&self, a: int) -> Option<&GuestRegionMmap<B>> {
        if exists|i: int| 0 <= i < self.regions@.len() && (#[trigger] self.regions@[i]).contains(a) {
            let i = choose|i: int| 0 <= i < self.regions@.len() && (#[trigger] self.regions@[i]).contains(a);
            Some(&*self.regions@[i])
        } else {
            None
        }
    }
    /// discharges GuestMemory::find_props (V-gm's trait-level lemma) for the mmap collection
    pub proof fn find_props(&self, a: int)
        requires self.wf(),
        ensures self.s_find(a) matches Some(r) ==> r.wf() && 0 <= r.s_start() && 0 < r.s_len() && r.s_start() + r.s_len() <= u64::MAX
            && r.contains(a)
            && (forall|b: int| r.contains(b) ==> (#[trigger] self.s_find(b)) == Some(r)), // [C02]
    {
        if exists|i: int| 0 <= i < self.regions@.len() && (#[trigger] self.regions@[i]).contains(a) {
            let i = choose|i: int| 0 <= i < self.regions@.len() && (#[trigger] self.regions@[i]).contains(a);
            let r = &*self.regions@[i];
            assert(self.regions@[i].wf());
            assert forall|b: int| r.contains(b) implies (#[trigger] self.s_find(b)) == Some(r) by {
                assert(self.regions@[i].contains(b));
                let j = choose|j: int| 0 <= j < self.regions@.len() && (#[trigger] self.regions@[j]).contains(b);
                lemma_unique_owner(self.regions@, i, j, b);
            }
        }
    }
//@fn src/mmap/mod.rs :: impl<B: Bitmap \+ 'static> GuestMemory for GuestMemoryMmap<B> :: find_region :: tags=C02,C07
//@sub self\.regions\.binary_search_by_key\(&addr, \|x\| x\.start_addr\(\)\) => bsearch_start(&self.regions, &addr)
//@sub \|x\| self\.regions\[x\]\.as_ref\(\) => |x: usize| -> (q: &GuestRegionMmap<B>) requires x < self.regions@.len() ensures *q == *self.regions@[x as int] { arc_ref(&self.regions[x]) }
//@before 0 /-/
        proof { lemma_starts_strict(self.regions@); }
//@end
//@spec
    requires self.wf(),
    ensures
        // resolves to the one region whose range contains the address ...
        r matches Some(reg) ==> exists|i: int| 0 <= i < self.regions@.len() && *reg == *self.regions@[i] && self.regions@[i].contains(addr.0 as int), // [C02]
        // ... and to nothing when it falls in a hole or beyond the ends
        r is None ==> forall|i: int| 0 <= i < self.regions@.len() ==> !(#[trigger] self.regions@[i]).contains(addr.0 as int), // [C02]
        // i.e. it implements the abstract lookup function the provided trait methods are specified with
        r == self.s_find(addr.0 as int), // [C02]
//@end
//@before 1 /index\.map\(/
        proof {
            if exists|i: int| 0 <= i < self.regions@.len() && (#[trigger] self.regions@[i]).contains(addr.0 as int) {
                let i = choose|i: int| 0 <= i < self.regions@.len() && (#[trigger] self.regions@[i]).contains(addr.0 as int);
                if index is Some { lemma_unique_owner(self.regions@, i, index.unwrap() as int, addr.0 as int); }
            }
        }
//@end
//@canary lt_last :: addr <= self\.regions\[x - 1\]\.last_addr\(\) => addr < self.regions[x - 1].last_addr()
//@canary x_not_minus1 :: => Some\(x - 1\) => => Some(x)
//@endfn
}

proof fn canary_false()
    ensures false, // [CANARY]
{}

} // verus!
fn main() {}
