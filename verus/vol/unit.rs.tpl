// V-vol: volatile_memory.rs + mmap/unix.rs accessors under contract (C01 C04 C05 C07 C17 C18).
// Everything between "//@fn" and "//@endfn" is cut out of /repo at run time.
#![allow(unused_imports, dead_code, unused_variables, unused_unsafe, unused_mut, unused_parens)]
use vstd::prelude::*;
use std::marker::PhantomData;
use std::mem::{size_of, align_of};

verus! {

//@global \bvolatile_memory::(compute_offset|compute_end_offset)\b => \1
//@include ../common/ptr.rs
//@include ../common/stdnum.rs
//@include ../common/stdopt.rs
//@include ../common/address.rs
//@include ../common/bitmap_traits.rs

//@if xen
// Xen build: accessors of a region that is NOT mapped in advance carry `mmap: Some(info)`; their stored
// address is a pseudo-address (region offset), and every access has to go through a PtrGuard, whose
// constructor maps a temporary window (MmapXen::mmap -> MmapXenSlice, window arithmetic: unit xen).
pub mod libc { pub const PROT_READ: i32 = 1; pub const PROT_WRITE: i32 = 2; }
pub struct MmapXenSlice { pub addr: Ptr }
impl MmapXenSlice { pub fn addr(&self) -> (r: Ptr) ensures r == self.addr { self.addr } }
pub struct MmapInfo { pub id: u32 }
impl MmapInfo {
    #[verifier::external_body]
    pub fn mmap(mmap: Option<&MmapInfo>, addr: Ptr, prot: i32, len: usize) -> (r: MmapXenSlice)
        ensures mmap is None ==> r.addr == addr,
                mmap is Some ==> r.addr.wf() && r.addr.valid_for(len as int) && r.addr.live@,
    { unimplemented!() }
}
/// a stored accessor address may be dereferenced directly only if its memory is mapped in advance
pub open spec fn direct_ok(addr: Ptr, mmap: Option<&MmapInfo>) -> bool { mmap is None ==> addr.live@ }
//@else
pub type MmapInfo = PhantomData<()>;
pub open spec fn direct_ok(addr: Ptr, mmap: Option<&MmapInfo>) -> bool { addr.live@ }
//@endif

// ------------------------------------------------------------------ layout facts (trusted axioms)
pub open spec fn is_pow2(x: int) -> bool {
    x == 1 || x == 2 || x == 4 || x == 8 || x == 16 || x == 32 || x == 64 || x == 128 || x == 256
    || x == 512 || x == 1024 || x == 2048 || x == 4096
}
// Rust guarantees: alignment is a power of two and the size is a multiple of the alignment.
pub axiom fn layout_facts<T>()
    ensures is_pow2(vstd::layout::align_of::<T>() as int),
            vstd::layout::size_of::<T>() as int % vstd::layout::align_of::<T>() as int == 0;

// plain-data marker traits of the crate (declarations only)
pub trait ByteValued: Copy + Sized {}
pub trait AtomicInteger: Sized {}

// ------------------------------------------------------------------ R2: raw access primitives.
// Each has the SAFETY contract of the Rust operation it replaces as its precondition; the content
// effect is not modelled here (Kani checks it on the compiled code).
#[verifier::external_body]
pub fn deref_at<'a, T>(p: Ptr) -> (r: &'a T)
    requires
        p.valid_for(vstd::layout::size_of::<T>() as int), // [C01]
        p.a as int % vstd::layout::align_of::<T>() as int == 0, // [C01]
        p.live@, // [C17]
{ unimplemented!() }
#[verifier::external_body]
pub fn deref_mut_at<'a, T>(p: Ptr) -> (r: &'a mut T)
    requires
        p.valid_for(vstd::layout::size_of::<T>() as int), // [C01]
        p.a as int % vstd::layout::align_of::<T>() as int == 0, // [C01]
        p.live@, // [C17]
{ unimplemented!() }
#[verifier::external_body]
pub fn write_volatile_packed<T>(p: Ptr, v: T)
    requires
        p.valid_for(vstd::layout::size_of::<T>() as int), // [C01]
        p.live@, // [C17]
{ unimplemented!() }
#[verifier::external_body]
pub fn read_volatile_packed<T>(p: Ptr) -> (r: T)
    requires
        p.valid_for(vstd::layout::size_of::<T>() as int), // [C01]
        p.live@, // [C17]
{ unimplemented!() }
/// std::ptr::copy(src, dst, count) on bytes
#[verifier::external_body]
pub fn copy(src: Ptr, dst: Ptr, count: usize)
    requires
        src.valid_for(count as int), // [C01]
        dst.valid_for(count as int), // [C01]
        src.live@ && dst.live@, // [C17]
{ unimplemented!() }
/// the crate's own byte-copy helper (volatile_memory.rs copy_slice_impl::copy_slice); its body uses a
/// mutably-capturing closure Verus cannot take -- it is verified by Kani (K-copy); here: its SAFETY
/// contract as stated in the source ("src and dst must point to a contiguously allocated memory
/// region of at least length total").
#[verifier::external_body]
pub fn copy_slice(dst: Ptr, src: Ptr, total: usize) -> (r: usize)
    requires
        src.valid_for(total as int), // [C01]
        dst.valid_for(total as int), // [C01]
        src.live@ && dst.live@, // [C17]
    ensures r == total,
{ unimplemented!() }
/// pointer to the first element of a Rust slice: valid for len * size_of::<T>() bytes, always mapped
#[verifier::external_body]
pub fn slice_as_mut_ptr<T>(s: &mut [T]) -> (r: Ptr)
    ensures r.wf(), final(s)@ == old(s)@, r.valid_for((old(s)@.len() * vstd::layout::size_of::<T>()) as int), r.live@
{ unimplemented!() }
#[verifier::external_body]
pub fn slice_as_ptr<T>(s: &[T]) -> (r: Ptr)
    ensures r.wf(), r.valid_for((s@.len() * vstd::layout::size_of::<T>()) as int), r.live@
{ unimplemented!() }

// ------------------------------------------------------------------ error type (declaration only)
/// std::io::ErrorKind / std::io::Error as far as the code looks at them: an error has a kind
#[derive(PartialEq, Eq, Clone, Copy, Structural, Debug)]
pub enum ErrorKind { Interrupted, WouldBlock, UnexpectedEof, WriteZero, Other }
#[derive(Debug)]
pub struct IoError { pub code: i32, pub k: ErrorKind }
impl IoError {
    pub fn kind(&self) -> (r: ErrorKind) ensures r == self.k { self.k }
}
/// "this result is an interruption" (EINTR): the only outcome a transfer may retry
pub open spec fn is_eintr<T>(r: Result<T>) -> bool { r matches Err(Error::IOError(e)) && e.k == ErrorKind::Interrupted }
#[derive(Debug)]
pub enum Error {
    OutOfBounds { addr: usize },
    Overflow { base: usize, offset: usize },
    TooBig { nelements: usize, size: usize },
    Misaligned { addr: usize, alignment: usize },
    IOError(IoError),
    PartialBuffer { expected: usize, completed: usize },
}
pub type Result<T> = core::result::Result<T, Error>;

//@fn src/volatile_memory.rs :: - :: compute_offset :: tags=C01,C07
//@spec
    ensures
        base + offset <= usize::MAX ==> r == Ok::<usize, Error>((base + offset) as usize), // [C01,C04]
        base + offset > usize::MAX ==> r is Err, // [C01]
//@end
//@canary wrapping :: base\.checked_add\(offset\) => Some(base.wrapping_add(offset))
//@endfn

//@item src/volatile_memory.rs :: - :: pub struct PtrGuard :: pubfields
//@enditem

impl PtrGuard {
//@fn src/volatile_memory.rs :: impl PtrGuard :: new :: tags=C17
//@spec
//@if xen
    ensures r.len == len, mmap is None ==> r.addr == addr, mmap is Some ==> r.addr.wf() && r.addr.valid_for(len as int) && r.addr.live@, // [C17]
//@else
    ensures r.addr == addr, r.len == len,
//@endif
//@end
//@endfn
//@fn src/volatile_memory.rs :: impl PtrGuard :: read :: tags=C17
//@spec
//@if xen
    ensures r.len == len, mmap is None ==> r.addr == addr, mmap is Some ==> r.addr.wf() && r.addr.valid_for(len as int) && r.addr.live@, // [C17]
//@else
    ensures r.addr == addr, r.len == len,
//@endif
//@end
//@endfn
//@fn src/volatile_memory.rs :: impl PtrGuard :: as_ptr :: tags=C17
//@spec
    ensures r == self.addr,
//@end
//@endfn
//@fn src/volatile_memory.rs :: impl PtrGuard :: len :: tags=C17
//@spec
    ensures r == self.len,
//@end
//@endfn
}

impl PtrGuard {
    /// R14: as_ptr() on a guard that is a temporary of a `let` initializer -- the pointer outlives the guard.
    /// Standard build: the guard is a no-op, the pointer is as good as the accessor's.  Xen build: the
    /// guard's window is gone when the statement ends, the pointer is not backed by a live mapping.
    pub fn as_ptr_temp(&self) -> (r: Ptr)
//@if xen
        ensures r.a == self.addr.a, r.lo == self.addr.lo, r.hi == self.addr.hi, !r.live@, // [C17]
    { Ptr { a: self.addr.a, lo: self.addr.lo, hi: self.addr.hi, live: Ghost(false) } }
//@else
        ensures r == self.addr,
    { self.addr }
//@endif
}
pub struct PtrGuardMut(pub PtrGuard);
impl PtrGuardMut {
    pub fn as_ptr_temp(&self) -> (r: Ptr)
//@if xen
        ensures r.a == self.0.addr.a, r.lo == self.0.addr.lo, r.hi == self.0.addr.hi, !r.live@, // [C17]
    { Ptr { a: self.0.addr.a, lo: self.0.addr.lo, hi: self.0.addr.hi, live: Ghost(false) } }
//@else
        ensures r == self.0.addr,
    { self.0.addr }
//@endif
//@fn src/volatile_memory.rs :: impl PtrGuardMut :: write :: tags=C17
//@spec
//@if xen
    ensures r.0.len == len, mmap is None ==> r.0.addr == addr, mmap is Some ==> r.0.addr.wf() && r.0.addr.valid_for(len as int) && r.0.addr.live@, // [C17]
//@else
    ensures r.0.addr == addr, r.0.len == len,
//@endif
//@end
//@endfn
//@fn src/volatile_memory.rs :: impl PtrGuardMut :: as_ptr :: tags=C17
//@spec
    ensures r == self.0.addr,
//@end
//@endfn
//@fn src/volatile_memory.rs :: impl PtrGuardMut :: len :: tags=C17
//@spec
    ensures r == self.0.len,
//@end
//@endfn
}

//@item src/volatile_memory.rs :: - :: pub struct VolatileSlice<'a, B = \(\)> :: pubfields
//@enditem

/// `#[derive(Clone, Copy)]` of the source (attributes are dropped by the extraction): the same view again
impl<'a, B: BitmapSlice> Clone for VolatileSlice<'a, B> {
    fn clone(&self) -> (r: Self)
        ensures r.addr == self.addr, r.size == self.size, shifted(&r.bitmap, &self.bitmap, 0), r.mmap == self.mmap
    { VolatileSlice { addr: self.addr, size: self.size, bitmap: self.bitmap.clone(), mmap: self.mmap } }
}

impl<'a, B: BitmapSlice> VolatileSlice<'a, B> {
    /// representation invariant: the slice lies inside its allocation, which does not wrap
    pub open spec fn wf(&self) -> bool {
        self.addr.wf() && self.addr.a + self.size <= self.addr.hi@
        // standard build: every accessor points into memory mapped in advance;
        // Xen build: only accessors without mapping info do
        && direct_ok(self.addr, self.mmap)
    }
    /// a guard taken from this accessor designates `n` accessible bytes
    pub open spec fn guard_ok(&self, g: &PtrGuard, n: int) -> bool {
        g.len == n && g.addr.valid_for(n) && g.addr.live@ && (self.mmap is None ==> g.addr == self.addr)
    }
    /// exact derivation: `self` is bytes [off, off+count) of `p`, with the bitmap shifted by off.
    /// Implies containment: p.a <= self.a and self.a + self.size <= p.a + p.size when
    /// 0 <= off and off + count <= p.size.
    pub open spec fn is_sub<C: BitmapSlice>(&self, p: &VolatileSlice<'a, C>, off: int, count: int) -> bool {
        self.wf()
        && self.addr.lo == p.addr.lo && self.addr.hi == p.addr.hi && self.addr.live == p.addr.live
        && 0 <= off && 0 <= count && off + count <= p.size
        && self.addr.a == p.addr.a + off && self.size == count
        && shifted(&self.bitmap, &p.bitmap, off) && self.mmap == p.mmap
    }

//@fn src/volatile_memory.rs :: impl<'a, B: BitmapSlice> VolatileSlice<'a, B> :: with_bitmap :: tags=C01
//@spec
    ensures r.addr == addr, r.size == size, r.bitmap == bitmap, r.mmap == mmap, // [C01,C17]
//@end
//@endfn

//@fn src/volatile_memory.rs :: impl<'a, B: BitmapSlice> VolatileSlice<'a, B> :: ptr_guard :: tags=C17
//@spec
    requires self.wf(),
    ensures self.guard_ok(&r, self.size as int), // [C01,C17]
//@end
//@endfn

//@fn src/volatile_memory.rs :: impl<'a, B: BitmapSlice> VolatileSlice<'a, B> :: ptr_guard_mut :: tags=C17
//@spec
    requires self.wf(),
    ensures self.guard_ok(&r.0, self.size as int), // [C01,C17]
//@end
//@endfn

//@fn src/volatile_memory.rs :: impl<'a, B: BitmapSlice> VolatileSlice<'a, B> :: len :: tags=C01
//@spec
    ensures r == self.size,
//@end
//@endfn

//@fn src/volatile_memory.rs :: impl<'a, B: BitmapSlice> VolatileSlice<'a, B> :: is_empty :: tags=C01
//@spec
    ensures r == (self.size == 0),
//@end
//@endfn

//@fn src/volatile_memory.rs :: impl<'a, B: BitmapSlice> VolatileSlice<'a, B> :: bitmap :: tags=C05
//@spec
    ensures r == &self.bitmap,
//@end
//@endfn

//@fn src/volatile_memory.rs :: impl<'a, B: BitmapSlice> VolatileSlice<'a, B> :: offset :: tags=C01,C07
//@sub \(self\.addr as usize\) => (self.addr.addr())
//@sub self\.addr as usize => self.addr.addr()
//@spec
    requires self.wf(),
    ensures
        count <= self.size ==> r is Ok, // [C01,C04,C18]
        count > self.size ==> r is Err, // [C01]
        r is Ok ==> r.unwrap().is_sub(self, count as int, self.size - count), // [C01,C04,C05,C17]
//@end
//@canary wrapping_sub :: \.checked_sub\(count\) => .checked_sub(0).map(|x: usize| x.wrapping_sub(count))
//@endfn

//@fn src/volatile_memory.rs :: impl<'a, B: BitmapSlice> VolatileSlice<'a, B> :: subslice :: tags=C01,C07
//@spec
    requires self.wf(),
    ensures
        offset + count <= self.size ==> r is Ok, // [C01,C04,C18]
        offset + count > self.size ==> r is Err, // [C01]
        r is Ok ==> r.unwrap().is_sub(self, offset as int, count as int), // [C01,C04,C05,C17]
//@end
//@canary slice_at0 :: self\.bitmap\.slice_at\(offset\) => self.bitmap.slice_at(0)
//@endfn

//@fn src/volatile_memory.rs :: impl<'a, B: BitmapSlice> VolatileSlice<'a, B> :: split_at :: tags=C01,C07
//@spec
    requires self.wf(),
    ensures
        mid <= self.size ==> r is Ok, // [C01,C04,C18]
        mid > self.size ==> r is Err, // [C01]
        r is Ok ==> r.unwrap().0.is_sub(self, 0, mid as int) && r.unwrap().1.is_sub(self, mid as int, self.size - mid), // [C01,C04,C05,C17]
//@end
//@endfn

//@fn src/volatile_memory.rs :: impl<'a, B: BitmapSlice> VolatileSlice<'a, B> :: copy_to :: tags=C01,C07 div0tags=C18
//@sub buf\.as_mut_ptr\(\) as Ptr => slice_as_mut_ptr(buf)
//@spec
    requires self.wf(), vstd::layout::size_of::<T>() <= isize::MAX,
    ensures
        vstd::layout::size_of::<T>() == 1 ==> r == (if old(buf)@.len() <= self.size { old(buf)@.len() } else { self.size as nat }), // [C04]
//@end
//@before 1 /let count = self\.size/
            proof {
                let sz = vstd::layout::size_of::<T>() as int;
                if sz > 0 {
                    assert((self.size as int / sz) * sz <= self.size as int) by (nonlinear_arith) requires sz > 0, self.size >= 0;
                    assert(self.size as int / sz <= self.size as int) by (nonlinear_arith) requires sz > 0, self.size >= 0;
                }
            }
//@end
//@endfn

//@fn src/volatile_memory.rs :: impl<'a, B: BitmapSlice> VolatileSlice<'a, B> :: copy_to_volatile_slice :: tags=C01,C07
//@spec
    requires self.wf(), slice.wf(),
//@end
//@endfn

//@fn src/volatile_memory.rs :: impl<'a, B: BitmapSlice> VolatileSlice<'a, B> :: copy_from :: tags=C01,C07 div0tags=C18
//@sub buf\.as_ptr\(\) as Ptr => slice_as_ptr(buf)
//@spec
    requires self.wf(), vstd::layout::size_of::<T>() <= isize::MAX,
//@end
//@before 1 /let count = self\.size/
            proof {
                let sz = vstd::layout::size_of::<T>() as int;
                if sz > 0 {
                    assert((self.size as int / sz) * sz <= self.size as int) by (nonlinear_arith) requires sz > 0, self.size >= 0;
                    assert(self.size as int / sz <= self.size as int) by (nonlinear_arith) requires sz > 0, self.size >= 0;
                }
            }
//@end
//@endfn

//@fn src/volatile_memory.rs :: impl<'a, B: BitmapSlice> VolatileSlice<'a, B> :: check_alignment :: tags=C01,C07
//@sub \(self\.addr as usize\) => (self.addr.addr())
//@sub self\.addr as usize => self.addr.addr()
//@spec
    requires is_pow2(alignment as int),
    ensures
        (r is Ok) == (self.addr.a as int % alignment as int == 0), // [C01,C06]
//@end
//@before 1 /vassert/
        proof { lemma_mask_is_mod(self.addr.a, alignment); }
//@end
//@canary dropped :: != 0 => == usize::MAX
//@endfn
}

//@item src/volatile_memory.rs :: - :: pub struct VolatileRef<'a, T, B = \(\)> :: pubfields
//@sub addr: Ptr, => addr: Ptr, pub phantom_t: PhantomData<T>,
//@enditem

impl<'a, T, B> VolatileRef<'a, T, B>
where
    T: ByteValued,
    B: BitmapSlice,
{
    pub open spec fn wf(&self) -> bool {
        self.addr.wf() && self.addr.valid_for(vstd::layout::size_of::<T>() as int) && direct_ok(self.addr, self.mmap)
    }
    /// the bytes this reference covers, as a slice (ghost)
    pub open spec fn view_slice(&self) -> VolatileSlice<'a, B> {
        VolatileSlice { addr: self.addr, size: vstd::layout::size_of::<T>() as usize, bitmap: self.bitmap, mmap: self.mmap }
    }
//@fn src/volatile_memory.rs :: impl<'a, T, B> VolatileRef<'a, T, B> :: with_bitmap :: tags=C01
//@sub addr: addr as Ptr, => addr: addr, phantom_t: PhantomData,
//@spec
    ensures r.addr == addr, r.bitmap == bitmap, r.mmap == mmap, // [C01,C17]
//@end
//@endfn
//@fn src/volatile_memory.rs :: impl<'a, T, B> VolatileRef<'a, T, B> :: ptr_guard :: tags=C17
//@sub self\.addr as Ptr => self.addr
//@spec
    requires self.wf(),
    ensures self.view_slice().guard_ok(&r, vstd::layout::size_of::<T>() as int), // [C01,C17]
//@end
//@endfn
//@fn src/volatile_memory.rs :: impl<'a, T, B> VolatileRef<'a, T, B> :: ptr_guard_mut :: tags=C17
//@sub self\.addr as Ptr => self.addr
//@spec
    requires self.wf(),
    ensures self.view_slice().guard_ok(&r.0, vstd::layout::size_of::<T>() as int), // [C01,C17]
//@end
//@endfn
//@fn src/volatile_memory.rs :: impl<'a, T, B> VolatileRef<'a, T, B> :: len :: tags=C01
//@spec
    ensures r == vstd::layout::size_of::<T>(), // [C01,C17]
//@end
//@endfn
//@fn src/volatile_memory.rs :: impl<'a, T, B> VolatileRef<'a, T, B> :: store :: tags=C01,C07
//@sub write_volatile\(guard\.as_ptr\(\) as Ptr, Packed::<T>\(v\)\) => write_volatile_packed::<T>(guard.as_ptr(), v)
//@spec
    requires self.wf(),
//@end
//@endfn
//@fn src/volatile_memory.rs :: impl<'a, T, B> VolatileRef<'a, T, B> :: load :: tags=C01,C07
//@sub read_volatile\(guard\.as_ptr\(\) as Ptr\)\.0 => read_volatile_packed::<T>(guard.as_ptr())
//@spec
    requires self.wf(),
//@end
//@endfn
//@fn src/volatile_memory.rs :: impl<'a, T, B> VolatileRef<'a, T, B> :: to_slice :: tags=C01,C05
//@sub self\.addr as Ptr => self.addr
//@spec
    requires self.wf(),
    ensures r.wf(), r.addr == self.addr, r.size == vstd::layout::size_of::<T>(), shifted(&r.bitmap, &self.bitmap, 0), r.mmap == self.mmap, // [C01,C05,C17]
//@end
//@endfn
}

//@item src/volatile_memory.rs :: - :: pub struct VolatileArrayRef<'a, T, B = \(\)> :: pubfields
//@enditem

impl<'a, T, B> VolatileArrayRef<'a, T, B>
where
    T: ByteValued,
    B: BitmapSlice,
{
    pub open spec fn wf(&self) -> bool {
        self.addr.wf() && self.nelem * vstd::layout::size_of::<T>() <= isize::MAX
        && self.addr.valid_for(self.nelem * vstd::layout::size_of::<T>()) && direct_ok(self.addr, self.mmap)
    }
    pub open spec fn view_slice(&self) -> VolatileSlice<'a, B> {
        VolatileSlice { addr: self.addr, size: (self.nelem * vstd::layout::size_of::<T>()) as usize, bitmap: self.bitmap, mmap: self.mmap }
    }
    // VolatileArrayRef::copy_to / copy_from iterate with `iter_mut().take(n)` (iterator adapters are
    // outside Verus's subset): their bodies are verified by Kani (K-vs), here only their precondition.
    #[verifier::external_body]
    pub fn copy_to(&self, buf: &mut [T]) -> (r: usize)
        requires self.wf(), // [C01]
    { unimplemented!() }
    #[verifier::external_body]
    pub fn copy_from(&self, buf: &[T])
        requires self.wf(), // [C01]
    { unimplemented!() }
//@fn src/volatile_memory.rs :: impl<'a, T, B> VolatileArrayRef<'a, T, B> :: with_bitmap :: tags=C01
//@spec
    ensures r.addr == addr, r.nelem == nelem, r.bitmap == bitmap, r.mmap == mmap, // [C01,C17]
//@end
//@endfn
//@fn src/volatile_memory.rs :: impl<'a, T, B> VolatileArrayRef<'a, T, B> :: is_empty :: tags=C01
//@spec
    ensures r == (self.nelem == 0),
//@end
//@endfn
//@fn src/volatile_memory.rs :: impl<'a, T, B> VolatileArrayRef<'a, T, B> :: len :: tags=C01
//@spec
    ensures r == self.nelem, // [C01,C17]
//@end
//@endfn
//@fn src/volatile_memory.rs :: impl<'a, T, B> VolatileArrayRef<'a, T, B> :: element_size :: tags=C01
//@spec
    ensures r == vstd::layout::size_of::<T>(), // [C01,C17]
//@end
//@endfn
//@fn src/volatile_memory.rs :: impl<'a, T, B> VolatileArrayRef<'a, T, B> :: ptr_guard :: tags=C17
//@spec
    requires self.wf(),
    ensures self.view_slice().guard_ok(&r, self.nelem * vstd::layout::size_of::<T>()), // [C17]
//@end
//@endfn
//@fn src/volatile_memory.rs :: impl<'a, T, B> VolatileArrayRef<'a, T, B> :: ptr_guard_mut :: tags=C17
//@spec
    requires self.wf(),
    ensures self.view_slice().guard_ok(&r.0, self.nelem * vstd::layout::size_of::<T>()), // [C17]
//@end
//@endfn
//@fn src/volatile_memory.rs :: impl<'a, T, B> VolatileArrayRef<'a, T, B> :: to_slice :: tags=C01,C05,C07
//@spec
    requires self.wf(),
    ensures r.wf(), r.addr == self.addr, r.size == self.nelem * vstd::layout::size_of::<T>(), shifted(&r.bitmap, &self.bitmap, 0), r.mmap == self.mmap, // [C01,C05,C17]
//@end
//@endfn
//@fn src/volatile_memory.rs :: impl<'a, T, B> VolatileArrayRef<'a, T, B> :: ref_at :: tags=C01,C07 asserts=guard
//@spec
    // no precondition on `index`: the documented panic IS the bound check (R3g), so the reference
    // handed out is proved inside the array FROM the function's own assert!, for every index
    requires self.wf(),
    ensures index < self.nelem,
         r.wf(), r.addr.a == self.addr.a + index * vstd::layout::size_of::<T>(), // [C01,C04]
        r.addr.lo == self.addr.lo && r.addr.hi == self.addr.hi,
        shifted(&r.bitmap, &self.bitmap, index * vstd::layout::size_of::<T>()), r.mmap == self.mmap, // [C05,C17]
//@end
//@before 1 /let byteofs/
            proof {
                let sz = vstd::layout::size_of::<T>() as int;
                if index < self.nelem { assert(sz * index + sz <= self.nelem * sz) by (nonlinear_arith) requires index < self.nelem, sz >= 0; }
                assert(sz * index == index * sz) by (nonlinear_arith);
                assert(0 <= sz * index) by (nonlinear_arith) requires sz >= 0, index >= 0;
            }
//@end
//@canary off_by_one_elem :: self\.element_size\(\) \* index\) => self.element_size() * (index + 1))
//@endfn
//@fn src/volatile_memory.rs :: impl<'a, T, B> VolatileArrayRef<'a, T, B> :: load :: tags=C01,C07
//@spec
    requires self.wf(),
//@end
//@endfn
//@fn src/volatile_memory.rs :: impl<'a, T, B> VolatileArrayRef<'a, T, B> :: store :: tags=C01,C07
//@spec
    requires self.wf(),
//@end
//@endfn
//@fn src/volatile_memory.rs :: impl<'a, T, B> VolatileArrayRef<'a, T, B> :: copy_to_volatile_slice :: tags=C01,C07
//@spec
    requires self.wf(), slice.wf(),
//@end
//@endfn
}

//@fn src/volatile_memory.rs :: pub\(crate\) mod copy_slice_impl :: copy_from_volatile_slice :: tags=C01,C07
//@spec
    requires slice.wf(), total <= slice.size, dst.valid_for(total as int), dst.live@,
    ensures r == total, // [C04]
//@end
//@endfn
//@fn src/volatile_memory.rs :: pub\(crate\) mod copy_slice_impl :: copy_to_volatile_slice :: tags=C01,C07
//@spec
    requires slice.wf(), total <= slice.size, src.valid_for(total as int), src.live@,
    ensures r == total, // [C04]
//@end
//@endfn

pub fn array_ref_from_slice<'a, B: BitmapSlice>(slice: VolatileSlice<'a, B>) -> (r: VolatileArrayRef<'a, u8, B>)
    requires slice.wf(), slice.size <= isize::MAX,
    ensures r.wf(), r.addr == slice.addr, r.nelem == slice.size, r.bitmap == slice.bitmap, r.mmap == slice.mmap, // [C01,C05,C17]
{
    proof { layout_u8(); }
    from_body(slice)
}
pub axiom fn layout_u8() ensures vstd::layout::size_of::<u8>() == 1;
impl ByteValued for u8 {}
//@fn src/volatile_memory.rs :: impl<'a, B: BitmapSlice> From<VolatileSlice<'a, B>> for VolatileArrayRef<'a, u8, B> :: from :: tags=C01 :: id=volatile_memory::from_slice
//@sub -> Self => -> VolatileArrayRef<'a, u8, B>
//@sub ^\s*fn from\( => fn from_body<'a, B: BitmapSlice>(
//@spec
    ensures r.addr == slice.addr, r.nelem == slice.size, r.bitmap == slice.bitmap, r.mmap == slice.mmap, // [C01,C17]
//@end
//@endfn

// ------------------------------------------------------------------ io.rs stream traits
/// callee-precondition trick for the window a generic stream is handed: `accepts` is abstract for a
/// generic F, so the only way to discharge it is the caller's own precondition, which names exactly
/// the permitted window (the in-memory streams accept any valid slice)
pub trait ReadVolatile: Sized {
    spec fn accepts<B: BitmapSlice>(&self, s: VolatileSlice<B>) -> bool;
    /// ghost position of the stream: how many bytes it has delivered so far
    spec fn pos(&self) -> int;
    fn read_volatile<B: BitmapSlice>(&mut self, buf: &mut VolatileSlice<B>) -> (r: Result<usize>)
        requires old(buf).wf(), // [C01]
            old(self).accepts(*old(buf)), // [C01,C04,C03,C14,C05,C16]
        ensures *final(buf) == *old(buf),
            r matches Ok(n) ==> final(self).pos() == old(self).pos() + n,
            // a call that reports an error has delivered nothing (POSIX: EINTR only before any transfer)
            r is Err ==> final(self).pos() == old(self).pos(),
            // licence to repeat the identical call: only after an interruption
            final(self).retry_ok() == is_eintr(r);
    spec fn retry_ok(&self) -> bool;

    // The exact loop.  Extraction drops the retry_eintr! wrapper (see above).  Proved for every stream
    // behaviour (any sequence of short counts, zero, errors, even counts larger than the window): each
    // call is handed exactly the not-yet-filled rest of `buf` -- the window starts where the bytes
    // delivered so far end -- Ok(()) is returned precisely when the whole buffer was filled, an empty
    // buffer makes no call at all, and the loop terminates.
#[verifier::loop_isolation(false)]
#[verifier::allow_complex_invariants]
#[verifier::exec_allows_no_decreases_clause] // the retry loop runs as long as the stream keeps reporting EINTR
//@fn src/io.rs :: pub trait ReadVolatile :: read_exact_volatile :: tags=C13,C14,C18,C07,C01
//@sub crate::VolatileMemoryError:: => Error::
//@sub std::io::ErrorKind:: => ErrorKind::
//@sub Result<\(\), VolatileMemoryError> => Result<()>
//@sub (?s)VolatileMemoryError::IOError\(std::io::Error::new\(\s*ErrorKind::UnexpectedEof,\s*"failed to fill whole buffer",\s*\)\) => Error::IOError(io_error_new())
//@spec
    requires old(buf).wf(),
        forall|st: Self, s: VolatileSlice<B>| #![trigger st.accepts(s)] s.is_sub(old(buf), st.pos() - old(self).pos(), old(buf).size - (st.pos() - old(self).pos())) ==> st.accepts(s), // [C14,C13,C01]
    ensures *final(buf) == *old(buf),
        r is Ok ==> final(self).pos() == old(self).pos() + old(buf).size, // [C14,C13]
        old(buf).size == 0 ==> r is Ok && final(self).pos() == old(self).pos(), // [C18]
//@end
//@loop 1
            invariant
                *buf == *old(buf), buf.wf(),
                0 <= self.pos() - old(self).pos() <= buf.size,
                partial_buf.is_sub(buf, self.pos() - old(self).pos(), buf.size - (self.pos() - old(self).pos())), // [C14,C13,C01,C05,C16,C03]
                forall|st: Self, s: VolatileSlice<B>| #![trigger st.accepts(s)] s.is_sub(old(buf), st.pos() - old(self).pos(), old(buf).size - (st.pos() - old(self).pos())) ==> st.accepts(s),
            decreases partial_buf.size,
//@end
//@loop 2
                // R15: the expansion of retry_eintr!( self.read_volatile(&mut partial_buf) )
                invariant
                    *buf == *old(buf), buf.wf(), partial_buf.size > 0, partial_buf.size == size0, self.pos() == pos0,
                    0 <= self.pos() - old(self).pos() <= buf.size,
                    partial_buf.is_sub(buf, pos0 - old(self).pos(), buf.size - (pos0 - old(self).pos())), // [C14,C13,C01,C05,C16,C03]
                ensures
                    !is_eintr(__retry_eintr_r), // [C14]
                    __retry_eintr_r matches Ok(n) ==> self.pos() == pos0 + n,
                    __retry_eintr_r is Err ==> self.pos() == pos0,
                    partial_buf.size == size0, partial_buf.is_sub(buf, pos0 - old(self).pos(), buf.size - (pos0 - old(self).pos())),
                    *buf == *old(buf), buf.wf(),
//@end
//@before 1 /match \{ let __retry_eintr_r/
            let ghost size0 = partial_buf.size; let ghost pos0 = self.pos();
//@end
//@before 1 /continue;/
                        assert(self.retry_ok()); // [C14]
//@end
//@canary restart_from_buf :: partial_buf = partial_buf\.offset\(bytes_read\) => partial_buf = buf.offset(bytes_read)
//@endfn
}
pub trait WriteVolatile: Sized {
    spec fn accepts<B: BitmapSlice>(&self, s: VolatileSlice<B>) -> bool;
    spec fn pos(&self) -> int;
    fn write_volatile<B: BitmapSlice>(&mut self, buf: &VolatileSlice<B>) -> (r: Result<usize>)
        requires buf.wf(), // [C01]
            old(self).accepts(*buf), // [C01,C04,C03,C14,C05,C16]
        ensures r matches Ok(n) ==> final(self).pos() == old(self).pos() + n,
            r is Err ==> final(self).pos() == old(self).pos(),
            final(self).retry_ok() == is_eintr(r);
    spec fn retry_ok(&self) -> bool;

#[verifier::loop_isolation(false)]
#[verifier::allow_complex_invariants]
#[verifier::exec_allows_no_decreases_clause] // the retry loop runs as long as the stream keeps reporting EINTR
//@fn src/io.rs :: pub trait WriteVolatile :: write_all_volatile :: tags=C13,C14,C18,C07,C01
//@sub crate::VolatileMemoryError:: => Error::
//@sub std::io::ErrorKind:: => ErrorKind::
//@sub Result<\(\), VolatileMemoryError> => Result<()>
//@sub (?s)VolatileMemoryError::IOError\(std::io::Error::new\(\s*ErrorKind::WriteZero,\s*"failed to write whole buffer",\s*\)\) => Error::IOError(io_error_new())
//@spec
    requires buf.wf(),
        forall|st: Self, s: VolatileSlice<B>| #![trigger st.accepts(s)] s.is_sub(buf, st.pos() - old(self).pos(), buf.size - (st.pos() - old(self).pos())) ==> st.accepts(s), // [C14,C13,C01]
    ensures
        r is Ok ==> final(self).pos() == old(self).pos() + buf.size, // [C14,C13]
        buf.size == 0 ==> r is Ok && final(self).pos() == old(self).pos(), // [C18]
//@end
//@loop 1
            invariant
                buf.wf(),
                0 <= self.pos() - old(self).pos() <= buf.size,
                partial_buf.is_sub(buf, self.pos() - old(self).pos(), buf.size - (self.pos() - old(self).pos())), // [C14,C13,C01,C05,C16,C03]
                forall|st: Self, s: VolatileSlice<B>| #![trigger st.accepts(s)] s.is_sub(buf, st.pos() - old(self).pos(), buf.size - (st.pos() - old(self).pos())) ==> st.accepts(s),
            decreases partial_buf.size,
//@end
//@loop 2
                // R15: the expansion of retry_eintr!( self.write_volatile(&partial_buf) )
                invariant
                    buf.wf(), partial_buf.size > 0,
                    0 <= self.pos() - old(self).pos() <= buf.size,
                    partial_buf.is_sub(buf, self.pos() - old(self).pos(), buf.size - (self.pos() - old(self).pos())), // [C14,C13,C01,C05,C16,C03] // [C14,C13,C01,C05,C16,C03]
                ensures
                    !is_eintr(__retry_eintr_r), // [C14]
                    __retry_eintr_r matches Ok(n) ==> partial_buf.is_sub(buf, self.pos() - n - old(self).pos(), buf.size - (self.pos() - n - old(self).pos())),
                    buf.wf(),
//@end
//@before 1 /continue;/
                        assert(self.retry_ok()); // [C14]
//@end
//@endfn
}
#[verifier::external_body]
pub fn io_error_new() -> IoError { unimplemented!() }

// ------------------------------------------------------------------ io.rs: descriptor transfers (one syscall each)
pub trait AsRawFd { fn as_raw_fd(&self) -> i32; }
/// libc::read / libc::write (trusted boundary): the kernel touches [p, p+count) of the caller's memory --
/// it must be the accessor's bytes, and (on-demand memory) inside a window that is still mapped
#[verifier::external_body]
pub fn libc_read(fd: i32, dst: Ptr, count: usize) -> (r: isize)
    requires dst.valid_for(count as int), // [C01]
        dst.live@, // [C17,C12]
    ensures -1 <= r <= count,
{ unimplemented!() }
#[verifier::external_body]
pub fn libc_write(fd: i32, src: Ptr, count: usize) -> (r: isize)
    requires src.valid_for(count as int), // [C01]
        src.live@, // [C17,C12]
    ensures -1 <= r <= count,
{ unimplemented!() }
/// isize -> usize `try_into().unwrap()`
pub fn isize_to_usize(x: isize) -> (r: usize)
    requires x >= 0, // [C07]
    ensures r == x
{ x as usize }
#[verifier::external_body]
pub fn last_os_error() -> IoError { unimplemented!() }

//@fn src/io.rs :: - :: read_volatile_raw_fd :: tags=C01,C07,C17,C13
//@sub <Fd: AsRawFd>\( => <Fd: AsRawFd, B: BitmapSlice>(
//@sub VolatileSlice<impl BitmapSlice> => VolatileSlice<B>
//@sub Result<usize, VolatileMemoryError> => Result<usize>
//@sub \.cast::<libc::c_void>\(\) => 
//@sub libc::read\( => libc_read(
//@sub bytes_read\.try_into\(\)\.unwrap\(\) => isize_to_usize(bytes_read)
//@sub VolatileMemoryError::IOError\(std::io::Error::last_os_error\(\)\) => Error::IOError(last_os_error())
//@spec
    requires old(buf).wf(),
    ensures r matches Ok(n) ==> n <= old(buf).size, // [C13,C01]
//@end
//@endfn
//@fn src/io.rs :: - :: write_volatile_raw_fd :: tags=C01,C07,C17,C13
//@sub <Fd: AsRawFd>\( => <Fd: AsRawFd, B: BitmapSlice>(
//@sub VolatileSlice<impl BitmapSlice> => VolatileSlice<B>
//@sub Result<usize, VolatileMemoryError> => Result<usize>
//@sub \.cast::<libc::c_void>\(\) => 
//@sub libc::write\( => libc_write(
//@sub bytes_written\.try_into\(\)\.unwrap\(\) => isize_to_usize(bytes_written)
//@sub VolatileMemoryError::IOError\(std::io::Error::last_os_error\(\)\) => Error::IOError(last_os_error())
//@spec
    requires buf.wf(),
    ensures r matches Ok(n) ==> n <= buf.size, // [C13,C01]
//@end
//@endfn

impl ReadVolatile for &[u8] {
    open spec fn accepts<B: BitmapSlice>(&self, s: VolatileSlice<B>) -> bool { true }
    open spec fn pos(&self) -> int { -(self@.len() as int) }
    open spec fn retry_ok(&self) -> bool { false }
//@fn src/io.rs :: impl ReadVolatile for &\[u8\] :: read_volatile :: tags=C04,C07,C13
//@sub Result<usize, VolatileMemoryError> => Result<usize>
//@sub self\.as_ptr\(\) => slice_as_ptr(*self)
//@spec
        ensures r == Ok::<usize, Error>(if old(buf).size <= old(self)@.len() { old(buf).size } else { old(self)@.len() as usize }), // [C04,C13]
            final(self)@ == old(self)@.subrange(r.unwrap() as int, old(self)@.len() as int), // [C13]
//@end
//@endfn
}

impl WriteVolatile for &mut [u8] {
    open spec fn accepts<B: BitmapSlice>(&self, s: VolatileSlice<B>) -> bool { true }
    open spec fn pos(&self) -> int { -(self@.len() as int) }
    open spec fn retry_ok(&self) -> bool { false }
    // body uses std::mem::take + split_at_mut (reborrow juggling Verus has no spec for): verified by
    // Kani (K-io, C13) against std's own Write for &mut [u8]; here the same contract is assumed.
    #[verifier::external_body]
    fn write_volatile<B: BitmapSlice>(&mut self, buf: &VolatileSlice<B>) -> (r: Result<usize>)
        ensures r == Ok::<usize, Error>(if buf.size <= old(self)@.len() { buf.size } else { old(self)@.len() as usize }),
            final(self)@.len() == old(self)@.len() - r.unwrap(),
    { unimplemented!() }
}

impl<B: BitmapSlice> VolatileSlice<'_, B> {
//@fn src/volatile_memory.rs :: impl<B: BitmapSlice> Bytes<usize> for VolatileSlice<'_, B> :: read :: tags=C01,C04,C07,C18 
//@spec
    requires self.wf(),
    ensures
        old(buf)@.len() == 0 ==> r == Ok::<usize, Error>(0), // [C18]
        old(buf)@.len() > 0 && addr >= self.size ==> r is Err, // [C04]
        old(buf)@.len() > 0 && addr < self.size ==> r == Ok::<usize, Error>(if old(buf)@.len() <= self.size - addr { old(buf)@.len() as usize } else { (self.size - addr) as usize }), // [C04,C03]
//@end
//@endfn
//@fn src/volatile_memory.rs :: impl<B: BitmapSlice> Bytes<usize> for VolatileSlice<'_, B> :: write_slice :: tags=C01,C04,C07,C18 
//@spec
    requires self.wf(),
    ensures
        buf@.len() == 0 ==> r is Ok, // [C18]
        (r is Ok) == (buf@.len() == 0 || addr + buf@.len() <= self.size), // [C04,C03]
        buf@.len() > 0 && addr < self.size && addr + buf@.len() > self.size ==> r == Err::<(), Error>(Error::PartialBuffer { expected: buf@.len() as usize, completed: (self.size - addr) as usize }), // [C04,C03]
//@end
//@endfn
//@fn src/volatile_memory.rs :: impl<B: BitmapSlice> Bytes<usize> for VolatileSlice<'_, B> :: read_slice :: tags=C01,C04,C07,C18 
//@spec
    requires self.wf(),
    ensures
        old(buf)@.len() == 0 ==> r is Ok, // [C18]
        (r is Ok) == (old(buf)@.len() == 0 || addr + old(buf)@.len() <= self.size), // [C04,C03]
        old(buf)@.len() > 0 && addr < self.size && addr + old(buf)@.len() > self.size ==> r == Err::<(), Error>(Error::PartialBuffer { expected: old(buf)@.len() as usize, completed: (self.size - addr) as usize }), // [C04,C03]
//@end
//@before 1 /if len != buf\.len\(\)/
        // language fact Verus does not derive across the re-bound `mut buf` in `read`: a `[u8]` place
        // keeps its length for as long as it exists (listed in the trusted base)
        proof { assume(buf@.len() == old(buf)@.len()); }
//@end
//@endfn
// the single-call stream forms.  Extraction drops the retry_eintr! wrapper (a loop repeating the
// identical call while it reports EINTR -- C14's subject, decided by the native enumeration): what is
// proved here is which window of the slice the stream is handed, for every addr / count, and that the
// `unwrap()` cannot fire.
#[verifier::loop_isolation(false)]
#[verifier::allow_complex_invariants]
#[verifier::exec_allows_no_decreases_clause] // the retry loop runs as long as the stream keeps reporting EINTR
//@fn src/volatile_memory.rs :: impl<B: BitmapSlice> Bytes<usize> for VolatileSlice<'_, B> :: read_volatile_from :: tags=C01,C04,C07,C18
//@sub crate::VolatileMemoryError:: => Error::
//@sub std::io::ErrorKind:: => ErrorKind::
//@spec
    requires self.wf(),
        forall|st: F, s: VolatileSlice<B>| #![trigger st.accepts(s)] s.is_sub(self, addr as int, (if count <= self.size - addr { count as int } else { self.size - addr })) ==> st.accepts(s), // [C01,C04,C03,C05,C16]
    ensures addr > self.size ==> r is Err, // [C01,C04]
        addr <= self.size ==> !is_eintr(r), // [C14]
        r matches Ok(n) ==> final(src).pos() == old(src).pos() + n, // [C14]
//@end
//@loop 1
            // R15: the expansion of retry_eintr!( .. ): every repetition is the identical call, made only after EINTR
            invariant src.pos() == old(src).pos(), slice.is_sub(self, addr as int, (if count <= self.size - addr { count as int } else { self.size - addr })), // [C01,C04,C03,C05,C16,C14]
            ensures !is_eintr(__retry_eintr_r), // [C14]
                __retry_eintr_r matches Ok(n) ==> src.pos() == old(src).pos() + n,
//@end
//@before 1 /continue;/
                    assert(src.retry_ok()); // [C14]
//@end
//@canary no_retry :: continue; => {}
//@canary retry_everything :: if err\.kind\(\) == ErrorKind::Interrupted => if true
//@canary whole_rest :: vmin\(slice\.len\(\), count\) => slice.len()
//@endfn
#[verifier::loop_isolation(false)]
#[verifier::allow_complex_invariants]
#[verifier::exec_allows_no_decreases_clause] // the retry loop runs as long as the stream keeps reporting EINTR
//@fn src/volatile_memory.rs :: impl<B: BitmapSlice> Bytes<usize> for VolatileSlice<'_, B> :: write_volatile_to :: tags=C01,C04,C07,C18
//@sub crate::VolatileMemoryError:: => Error::
//@sub std::io::ErrorKind:: => ErrorKind::
//@spec
    requires self.wf(),
        forall|st: F, s: VolatileSlice<B>| #![trigger st.accepts(s)] s.is_sub(self, addr as int, (if count <= self.size - addr { count as int } else { self.size - addr })) ==> st.accepts(s), // [C01,C04,C03,C05,C16]
    ensures addr > self.size ==> r is Err, // [C01,C04]
        addr <= self.size ==> !is_eintr(r), // [C14]
        r matches Ok(n) ==> final(dst).pos() == old(dst).pos() + n, // [C14]
//@end
//@loop 1
            // R15: the expansion of retry_eintr!( .. ): every repetition is the identical call, made only after EINTR
            invariant dst.pos() == old(dst).pos(), slice.wf(),
            ensures !is_eintr(__retry_eintr_r), // [C14]
                __retry_eintr_r matches Ok(n) ==> dst.pos() == old(dst).pos() + n,
//@end
//@before 1 /continue;/
                    assert(dst.retry_ok()); // [C14]
//@end
//@canary whole_rest :: vmin\(slice\.len\(\), count\) => slice.len()
//@endfn
// the exact stream forms: the window [addr, addr+count) is carved out (or the request refused) and handed
// to the stream's exact loop (contract above)
//@fn src/volatile_memory.rs :: impl<B: BitmapSlice> Bytes<usize> for VolatileSlice<'_, B> :: read_exact_volatile_from :: tags=C01,C04,C07,C18,C14
//@spec
    requires self.wf(),
        forall|st: F, w: VolatileSlice<B>, s: VolatileSlice<B>| #![trigger st.accepts(s), self.vm_sub(&w, addr as int, count as int)] self.vm_sub(&w, addr as int, count as int)
            && s.is_sub(&w, st.pos() - old(src).pos(), count - (st.pos() - old(src).pos())) ==> st.accepts(s), // [C14,C01,C04,C05,C16]
    ensures addr + count > self.size ==> r is Err, // [C01,C04]
        r is Ok ==> final(src).pos() == old(src).pos() + count, // [C14]
        count == 0 && addr <= self.size ==> r is Ok && final(src).pos() == old(src).pos(), // [C18]
//@end
//@canary window_from_zero :: self\.get_slice\(addr, count\) => self.get_slice(0, count)
//@endfn
//@fn src/volatile_memory.rs :: impl<B: BitmapSlice> Bytes<usize> for VolatileSlice<'_, B> :: write_all_volatile_to :: tags=C01,C04,C07,C18,C14
//@spec
    requires self.wf(),
        forall|st: F, w: VolatileSlice<B>, s: VolatileSlice<B>| #![trigger st.accepts(s), self.vm_sub(&w, addr as int, count as int)] self.vm_sub(&w, addr as int, count as int)
            && s.is_sub(&w, st.pos() - old(dst).pos(), count - (st.pos() - old(dst).pos())) ==> st.accepts(s), // [C14,C01,C04,C05,C16]
    ensures addr + count > self.size ==> r is Err, // [C01,C04]
        r is Ok ==> final(dst).pos() == old(dst).pos() + count, // [C14]
        count == 0 && addr <= self.size ==> r is Ok && final(dst).pos() == old(dst).pos(), // [C18]
//@end
//@canary window_from_zero :: self\.get_slice\(addr, count\) => self.get_slice(0, count)
//@endfn
//@fn src/volatile_memory.rs :: impl<B: BitmapSlice> Bytes<usize> for VolatileSlice<'_, B> :: write :: tags=C01,C04,C07,C18 
//@spec
    requires self.wf(),
    ensures
        buf@.len() == 0 ==> r == Ok::<usize, Error>(0), // [C18]
        buf@.len() > 0 && addr >= self.size ==> r is Err, // [C04]
        buf@.len() > 0 && addr < self.size ==> r == Ok::<usize, Error>(if buf@.len() <= self.size - addr { buf@.len() as usize } else { (self.size - addr) as usize }), // [C04,C03]
//@end
//@endfn
}

pub proof fn lemma_mask_is_mod(a: usize, al: usize)
    requires is_pow2(al as int)
    ensures al >= 1, (a & ((al - 1) as usize)) == 0 <==> (a as int % al as int == 0), (al & ((al - 1) as usize)) == 0
{
    assert(al == 1 || al == 2 || al == 4 || al == 8 || al == 16 || al == 32 || al == 64 || al == 128
        || al == 256 || al == 512 || al == 1024 || al == 2048 || al == 4096);
    assert((al == 1 || al == 2 || al == 4 || al == 8 || al == 16 || al == 32 || al == 64 || al == 128
        || al == 256 || al == 512 || al == 1024 || al == 2048 || al == 4096) ==>
        (((a & ((al - 1) as usize)) == 0 <==> (a % al == 0)) && (al & ((al - 1) as usize)) == 0)) by (bit_vector);
}

pub trait VolatileMemory {
    type B: Bitmap;
    /// ghost view of the container: where it starts, how long it is
    spec fn vm_ptr(&self) -> Ptr;
    spec fn vm_len(&self) -> int;
    spec fn vm_wf(&self) -> bool;
    spec fn vm_mmap_none(&self) -> bool;
    /// `s` is exactly bytes [off, off+count) of this container, bitmap shifted accordingly
    spec fn vm_sub<'b>(&self, s: &VolatileSlice<'b, <Self::B as Bitmap>::S>, off: int, count: int) -> bool;
    /// this implementor's get_slice answers exactly the requested window (true for the crate's own
    /// implementors, proved below).  The trait documentation says unsafe code MUST NOT rely on it:
    /// for an arbitrary implementor only `r.wf()` (a VolatileSlice is constructed over valid memory)
    /// is known, and the provided methods must still hand out accessors inside that slice.
    spec fn vm_exact(&self) -> bool;

    fn len(&self) -> (r: usize)
        ensures r == self.vm_len();

    fn get_slice(&self, offset: usize, count: usize) -> (r: Result<VolatileSlice<<Self::B as Bitmap>::S>>)
        requires self.vm_wf(),
        ensures
            r is Ok ==> r.unwrap().wf(), // [C01,C17]
            self.vm_exact() && offset + count <= self.vm_len() ==> r is Ok, // [C01,C02,C04,C18]
            self.vm_exact() && offset + count > self.vm_len() ==> r is Err, // [C01]
            self.vm_exact() && r is Ok ==> self.vm_sub(&r.unwrap(), offset as int, count as int) && r.unwrap().size == count, // [C01,C04,C05,C17]
    ;

//@fn src/volatile_memory.rs :: pub trait VolatileMemory :: is_empty :: tags=C01
//@spec
    ensures r == (self.vm_len() == 0),
//@end
//@endfn

//@fn src/volatile_memory.rs :: pub trait VolatileMemory :: as_volatile_slice :: tags=C01,C07
//@spec
    requires self.vm_wf(), 0 <= self.vm_len() <= usize::MAX, self.vm_exact(),
    ensures self.vm_sub(&r, 0, self.vm_len()) && r.wf() && r.size == self.vm_len(), // [C01,C03]
//@end
//@endfn

//@fn src/volatile_memory.rs :: pub trait VolatileMemory :: get_ref :: tags=C01,C07 asserts=guardif:self.vm_exact()
//@spec
    requires self.vm_wf(),
    ensures
        r is Ok ==> r.unwrap().wf(), // [C01]
        self.vm_exact() && offset + vstd::layout::size_of::<T>() <= self.vm_len() ==> r is Ok, // [C01,C04,C18]
        self.vm_exact() && offset + vstd::layout::size_of::<T>() > self.vm_len() ==> r is Err, // [C01]
        self.vm_exact() && r is Ok ==> self.vm_sub(&r.unwrap().view_slice(), offset as int, vstd::layout::size_of::<T>() as int), // [C01,C04,C05]
//@end
//@canary wrong_base :: slice\.addr, => slice.addr.add(1),
//@endfn

//@fn src/volatile_memory.rs :: pub trait VolatileMemory :: get_array_ref :: tags=C01,C07 asserts=guardif:self.vm_exact()
//@sub \|n\| n\.checked_mul\(size_of::<T>\(\) as isize\) => |n: isize| -> (r: Option<isize>) ensures r == (if n * vstd::layout::size_of::<T>() <= isize::MAX && n * vstd::layout::size_of::<T>() >= isize::MIN { Some((n * vstd::layout::size_of::<T>()) as isize) } else { None::<isize> }) { n.checked_mul(size_of::<T>() as isize) }
//@spec
    requires self.vm_wf(), vstd::layout::size_of::<T>() <= isize::MAX,
    ensures
        r is Ok ==> r.unwrap().wf() && r.unwrap().nelem == n, // [C01]
        self.vm_exact() && offset + n * vstd::layout::size_of::<T>() <= self.vm_len() && n * vstd::layout::size_of::<T>() <= isize::MAX && n <= isize::MAX ==> r is Ok, // [C01,C04,C18]
        self.vm_exact() && offset + n * vstd::layout::size_of::<T>() > self.vm_len() ==> r is Err, // [C01]
        n * vstd::layout::size_of::<T>() > isize::MAX ==> r is Err, // [C01]
        self.vm_exact() && r is Ok ==> self.vm_sub(&r.unwrap().view_slice(), offset as int, n * vstd::layout::size_of::<T>()), // [C01,C04,C05]
//@end
//@before 1 /let slice = self\.get_slice/
        proof {
            let sz = vstd::layout::size_of::<T>() as int;
            assert(n <= isize::MAX && nbytes == n * sz);
        }
//@end
//@canary wrapping_mul :: n\.checked_mul\(size_of::<T>\(\) as isize\) \} => Some(n.wrapping_mul(size_of::<T>() as isize)) }
//@endfn

//@fn src/volatile_memory.rs :: pub trait VolatileMemory :: aligned_as_ref :: tags=C01,C07 asserts=guardif:self.vm_exact() :: noret
//@sub &\*\(slice\.addr as \*const T\) => deref_at::<T>(slice.addr)
//@before 0 /-/
        proof { layout_facts::<T>(); }
//@end
//@spec
    requires self.vm_wf(),
//@end
//@canary no_align_check :: slice\.check_alignment\(align_of::<T>\(\)\)\?; => ;
//@endfn

//@fn src/volatile_memory.rs :: pub trait VolatileMemory :: aligned_as_mut :: tags=C01,C07 asserts=guardif:self.vm_exact() :: noret
//@sub &mut \*\(slice\.addr as \*mut T\) => deref_mut_at::<T>(slice.addr)
//@before 0 /-/
        proof { layout_facts::<T>(); }
//@end
//@spec
    requires self.vm_wf(),
//@end
//@endfn

//@fn src/volatile_memory.rs :: pub trait VolatileMemory :: get_atomic_ref :: tags=C01,C07 asserts=guardif:self.vm_exact() :: noret
//@sub &\*\(slice\.addr as \*const T\) => deref_at::<T>(slice.addr)
//@before 0 /-/
        proof { layout_facts::<T>(); }
//@end
//@spec
    requires self.vm_wf(),
//@end
//@canary no_align_check :: slice\.check_alignment\(align_of::<T>\(\)\)\?; => ;
//@endfn

//@fn src/volatile_memory.rs :: pub trait VolatileMemory :: compute_end_offset :: tags=C01,C07
//@spec
    requires 0 <= self.vm_len() <= usize::MAX,
    ensures
        base + offset <= self.vm_len() ==> r == Ok::<usize, Error>((base + offset) as usize), // [C01,C04,C18]
        base + offset > self.vm_len() ==> r is Err, // [C01]
//@end
//@canary ge :: mem_end > self\.len\(\) => mem_end >= self.len()
//@endfn
}

impl<'a, B: BitmapSlice> VolatileMemory for VolatileSlice<'a, B> {
    type B = SliceAsBitmap<B>;
    open spec fn vm_ptr(&self) -> Ptr { self.addr }
    open spec fn vm_len(&self) -> int { self.size as int }
    open spec fn vm_wf(&self) -> bool { self.wf() }
    open spec fn vm_mmap_none(&self) -> bool { self.mmap is None }
    open spec fn vm_exact(&self) -> bool { true }
    open spec fn vm_sub<'b>(&self, s: &VolatileSlice<'b, B>, off: int, count: int) -> bool {
        s.wf()
        && s.addr.lo == self.addr.lo && s.addr.hi == self.addr.hi && s.addr.live == self.addr.live
        && 0 <= off && 0 <= count && off + count <= self.size
        && s.addr.a == self.addr.a + off && s.size == count
        && shifted(&s.bitmap, &self.bitmap, off) && s.mmap == self.mmap
    }
//@fn src/volatile_memory.rs :: impl<B: BitmapSlice> VolatileMemory for VolatileSlice<'_, B> :: len :: tags=C01
//@endfn
//@fn src/volatile_memory.rs :: impl<B: BitmapSlice> VolatileMemory for VolatileSlice<'_, B> :: get_slice :: tags=C01
//@endfn
}

//@if !xen
// ------------------------------------------------------------------ mmap/unix.rs: MmapRegion as VolatileMemory
pub struct FileOffset { pub start: u64 }
//@item src/mmap/unix.rs :: - :: pub struct MmapRegion<B = \(\)> :: pubfields
//@enditem

/// libc::munmap(addr, len) (trusted boundary).  Precondition = C12's "unmapped exactly": one whole mapping,
/// from its first byte over its whole length; the pointer is passed by `&mut` so that the effect is
/// visible (afterwards the mapping is gone) and an owner's Drop can be required to establish it.
#[verifier::external_body]
pub fn libc_munmap(p: &mut Ptr, len: usize) -> (r: i32)
    requires
        old(p).lo@ == old(p).a, // [C12]
        old(p).hi@ == old(p).a + len, // [C12]
        old(p).live@, // [C12]
    ensures !final(p).live@, final(p).a == old(p).a, final(p).lo == old(p).lo, final(p).hi == old(p).hi,
{ unimplemented!() }
impl<B> MmapRegion<B> {
    /// an OWNED region holds exactly one whole live mapping of `size` bytes starting at `addr`
    /// (established by MmapRegionBuilder::build - K-region's subject)
    pub open spec fn owns_mapping(&self) -> bool {
        self.addr.lo@ == self.addr.a && self.addr.hi@ == self.addr.a + self.size && self.addr.live@
    }
//@fn src/mmap/unix.rs :: impl<B> Drop for MmapRegion<B> :: drop :: tags=C12,C07 :: id=unix::MmapRegion::drop
//@sub libc::munmap\(self\.addr as \*mut libc::c_void, => libc_munmap(&mut self.addr,
//@spec
    requires old(self).owned ==> old(self).owns_mapping(),
    ensures
        old(self).owned ==> !final(self).addr.live@, // [C12]
        !old(self).owned ==> final(self).addr == old(self).addr, // [C12]
//@end
//@canary never_unmaps :: if self\.owned => if self.owned && self.size == 0
//@endfn
}
impl<B: Bitmap> MmapRegion<B> {
    /// what a successful mmap(size) gives the region (assumed, unsafe root): `size` mapped bytes at addr
    pub open spec fn wf(&self) -> bool {
        self.addr.wf() && self.addr.a + self.size <= self.addr.hi@ && self.addr.live@
    }
//@fn src/mmap/unix.rs :: impl<B: Bitmap> MmapRegion<B> :: as_ptr :: tags=C01
//@spec
    ensures r == self.addr,
//@end
//@endfn
//@fn src/mmap/unix.rs :: impl<B: Bitmap> MmapRegion<B> :: size :: tags=C01
//@spec
    ensures r == self.size,
//@end
//@endfn
//@fn src/mmap/unix.rs :: impl<B: Bitmap> MmapRegion<B> :: bitmap :: tags=C05
//@spec
    ensures r == &self.bitmap,
//@end
//@endfn
}

impl<B: Bitmap> VolatileMemory for MmapRegion<B> {
    type B = B;
    open spec fn vm_ptr(&self) -> Ptr { self.addr }
    open spec fn vm_len(&self) -> int { self.size as int }
    open spec fn vm_wf(&self) -> bool { self.wf() }
    open spec fn vm_mmap_none(&self) -> bool { true }
    open spec fn vm_exact(&self) -> bool { true }
    open spec fn vm_sub<'b>(&self, s: &VolatileSlice<'b, B::S>, off: int, count: int) -> bool {
        s.wf()
        && s.addr.lo == self.addr.lo && s.addr.hi == self.addr.hi && s.addr.live == self.addr.live
        && 0 <= off && 0 <= count && off + count <= self.size
        && s.addr.a == self.addr.a + off && s.size == count
        // the slice's bitmap addresses the REGION's own offsets: base = region bitmap base + off
        && shifted(&s.bitmap, &self.bitmap, off)
    }
//@fn src/mmap/unix.rs :: impl<B: Bitmap> VolatileMemory for MmapRegion<B> :: len :: tags=C01
//@endfn
//@fn src/mmap/unix.rs :: impl<B: Bitmap> VolatileMemory for MmapRegion<B> :: get_slice :: tags=C01,C05,C07
//@sub volatile_memory::Result< => Result<
//@canary slice_at0 :: self\.bitmap\.slice_at\(offset\) => self.bitmap.slice_at(0)
//@canary no_add :: self\.addr\.add\(offset\) => self.addr.add(0)
//@endfn
}

// ------------------------------------------------------------------ mmap/mod.rs: GuestRegionMmap (region level)
#[derive(Debug)]
pub enum GmError {
    InvalidGuestAddress(GuestAddress),
    IOError(IoError),
    PartialBuffer { expected: usize, completed: usize },
    InvalidBackendAddress,
    HostAddressNotAvailable,
    CallbackOutOfRange,
    GuestAddressOverflow,
}
pub type GmResult<T> = core::result::Result<T, GmError>;
/// how a slice-level error must surface at region / guest level (from the property statements:
/// partial transfers keep their counts, I/O errors are passed on, anything else is a backend-address error)
pub open spec fn gm_from(e: Error) -> GmError {
    match e {
        Error::PartialBuffer { expected, completed } => GmError::PartialBuffer { expected, completed },
        Error::IOError(x) => GmError::IOError(x),
        _ => GmError::InvalidBackendAddress,
    }
}

//@fn src/guest_memory.rs :: impl From<volatile_memory::Error> for Error :: from :: tags=C03 :: id=guest_memory::error_from
//@sub volatile_memory::Error => @@VM@@
//@sub \bError:: => GmError::
//@sub @@VM@@ => Error
//@sub fn from\(e: Error\) => pub fn gm_error_from(e: Error)
//@sub -> Self => -> GmError
//@spec
    ensures
        r == gm_from(e), // [C03,C14]
//@end
//@endfn

//@item src/mmap/mod.rs :: - :: pub struct GuestRegionMmap<B = \(\)> :: pubfields
//@enditem

impl<B: Bitmap> GuestRegionMmap<B> {
    pub open spec fn wf(&self) -> bool { self.mapping.wf() }
    pub open spec fn s_len(&self) -> int { self.mapping.size as int }

//@fn src/mmap/mod.rs :: impl<B: Bitmap> GuestMemoryRegion for GuestRegionMmap<B> :: len :: tags=C02
//@spec
    ensures r == self.mapping.size,
//@end
//@endfn
//@fn src/mmap/mod.rs :: impl<B: Bitmap> GuestMemoryRegion for GuestRegionMmap<B> :: start_addr :: tags=C02
//@spec
    ensures r == self.guest_base,
//@end
//@endfn

//@fn src/mmap/mod.rs :: impl<B: Bitmap> GuestMemoryRegion for GuestRegionMmap<B> :: get_slice :: tags=C01,C02,C05,C07
//@sub guest_memory::Result< => GmResult<
//@sub \)\?; => ).map_err(|e: Error| -> (q: GmError) ensures q == gm_from(e) { gm_error_from(e) })?;
//@spec
    requires self.wf(),
    ensures
        // a single contiguous slice is granted exactly for the ranges contained in the region
        (r is Ok) == (offset.0 + count <= self.s_len()), // [C02,C01]
        r matches Ok(sl) ==> self.mapping.vm_sub(&sl, offset.0 as int, count as int) && sl.size == count, // [C01,C02,C05]
//@end
//@endfn

//@fn src/guest_memory.rs :: pub trait GuestMemoryRegion :: as_volatile_slice :: tags=C03,C07 :: id=guest_memory::GuestMemoryRegion::as_volatile_slice
//@sub Result<VolatileSlice<<Self::B as Bitmap>::S>> => GmResult<VolatileSlice<<B as Bitmap>::S>>
//@spec
    requires self.wf(),
    ensures r matches Ok(sl) && self.mapping.vm_sub(&sl, 0, self.s_len()) && sl.size == self.s_len(), // [C03,C01]
//@end
//@endfn

// the region's own address validation and the raw host address it hands out
//@fn src/guest_memory.rs :: pub trait GuestMemoryRegion :: last_addr :: tags=C02,C07 :: id=guest_memory::GuestMemoryRegion::last_addr(mmap)
//@spec
    // what GuestRegionMmap::new guarantees (V-mmapcol): the region is not empty and does not wrap
    requires self.s_len() >= 1, self.guest_base.0 + self.s_len() - 1 <= u64::MAX,
    ensures r.0 == self.guest_base.0 + self.s_len() - 1, // [C02]
//@end
//@endfn
//@fn src/guest_memory.rs :: pub trait GuestMemoryRegion :: address_in_range :: tags=C02,C01,C07 :: id=guest_memory::GuestMemoryRegion::address_in_range(mmap)
//@spec
    ensures r == (addr.0 < self.s_len()), // [C02,C01]
//@end
//@endfn
//@fn src/guest_memory.rs :: pub trait GuestMemoryRegion :: check_address :: tags=C02,C01,C07 :: id=guest_memory::GuestMemoryRegion::check_address(mmap)
//@spec
    ensures r == (if addr.0 < self.s_len() { Some(addr) } else { None::<MemoryRegionAddress> }), // [C02,C01]
//@end
//@endfn
//@fn src/mmap/mod.rs :: impl<B: Bitmap> GuestMemoryRegion for GuestRegionMmap<B> :: get_host_address :: tags=C01,C02,C07
//@sub guest_memory::Result< => GmResult<
//@sub guest_memory::Error:: => GmError::
//@sub \.map\(\|addr\| \{ => .map(|addr: MemoryRegionAddress| -> (q: Ptr) requires addr.0 < self.s_len(), self.wf() ensures q.a == self.mapping.addr.a + addr.0, q.lo == self.mapping.addr.lo, q.hi == self.mapping.addr.hi {
//@spec
    requires self.wf(),
    ensures
        // a host address is handed out exactly for offsets inside the region, and it is that byte of the mapping
        (r is Ok) == (addr.0 < self.s_len()), // [C01,C02]
        r matches Ok(p) ==> p.a == self.mapping.addr.a + addr.0 && p.valid_for(1) && p.lo == self.mapping.addr.lo && p.hi == self.mapping.addr.hi, // [C01]
//@end
//@endfn

//@fn src/mmap/mod.rs :: impl<B: Bitmap> Bytes<MemoryRegionAddress> for GuestRegionMmap<B> :: write :: tags=C03,C04,C07,C18 :: id=mod::GuestRegionMmap::Bytes::write
//@sub guest_memory::Result< => GmResult<
//@sub \.map_err\(Into::into\) => .map_err(|e: Error| -> (q: GmError) ensures q == gm_from(e) { gm_error_from(e) })
//@spec
    requires self.wf(),
    ensures
        buf@.len() == 0 ==> r == Ok::<usize, GmError>(0), // [C18]
        buf@.len() > 0 && addr.0 >= self.s_len() ==> r is Err, // [C03,C04]
        buf@.len() > 0 && addr.0 < self.s_len() ==> r == Ok::<usize, GmError>(if buf@.len() <= self.s_len() - addr.0 { buf@.len() as usize } else { (self.s_len() - addr.0) as usize }), // [C03,C04]
//@end
//@endfn
//@fn src/mmap/mod.rs :: impl<B: Bitmap> Bytes<MemoryRegionAddress> for GuestRegionMmap<B> :: read :: tags=C03,C04,C07,C18 :: id=mod::GuestRegionMmap::Bytes::read
//@sub guest_memory::Result< => GmResult<
//@sub \.map_err\(Into::into\) => .map_err(|e: Error| -> (q: GmError) ensures q == gm_from(e) { gm_error_from(e) })
//@spec
    requires self.wf(),
    ensures
        old(buf)@.len() == 0 ==> r == Ok::<usize, GmError>(0), // [C18]
        old(buf)@.len() > 0 && addr.0 >= self.s_len() ==> r is Err, // [C03,C04]
        old(buf)@.len() > 0 && addr.0 < self.s_len() ==> r == Ok::<usize, GmError>(if old(buf)@.len() <= self.s_len() - addr.0 { old(buf)@.len() as usize } else { (self.s_len() - addr.0) as usize }), // [C03,C04]
//@end
//@endfn
//@fn src/mmap/mod.rs :: impl<B: Bitmap> Bytes<MemoryRegionAddress> for GuestRegionMmap<B> :: read_volatile_from :: tags=C03,C04,C07,C14,C18,C01 :: id=mod::GuestRegionMmap::Bytes::read_volatile_from
//@sub Result<usize, Self::E> => GmResult<usize>
//@sub \.map_err\(Into::into\) => .map_err(|e: Error| -> (q: GmError) ensures q == gm_from(e) { gm_error_from(e) })
//@spec
    requires self.wf(),
        // the stream is handed exactly the window [addr, addr + min(count, rest of the region)) of the region's slice
        forall|st: F, w: VolatileSlice<B::S>, s: VolatileSlice<B::S>| #![trigger st.accepts(s), self.mapping.vm_sub(&w, 0, self.s_len())]
            self.mapping.vm_sub(&w, 0, self.s_len()) && s.is_sub(&w, addr.0 as int, (if count <= self.s_len() - addr.0 { count as int } else { self.s_len() - addr.0 })) ==> st.accepts(s), // [C01,C04,C03,C05]
    ensures addr.0 > self.s_len() ==> r is Err, // [C03,C04]
        r matches Ok(n) ==> final(src).pos() == old(src).pos() + n, // [C14,C03]
//@end
//@endfn
//@fn src/mmap/mod.rs :: impl<B: Bitmap> Bytes<MemoryRegionAddress> for GuestRegionMmap<B> :: write_volatile_to :: tags=C03,C04,C07,C14,C18,C01 :: id=mod::GuestRegionMmap::Bytes::write_volatile_to
//@sub Result<usize, Self::E> => GmResult<usize>
//@sub \.map_err\(Into::into\) => .map_err(|e: Error| -> (q: GmError) ensures q == gm_from(e) { gm_error_from(e) })
//@spec
    requires self.wf(),
        // the stream is handed exactly the window [addr, addr + min(count, rest of the region)) of the region's slice
        forall|st: F, w: VolatileSlice<B::S>, s: VolatileSlice<B::S>| #![trigger st.accepts(s), self.mapping.vm_sub(&w, 0, self.s_len())]
            self.mapping.vm_sub(&w, 0, self.s_len()) && s.is_sub(&w, addr.0 as int, (if count <= self.s_len() - addr.0 { count as int } else { self.s_len() - addr.0 })) ==> st.accepts(s), // [C01,C04,C03,C05]
    ensures addr.0 > self.s_len() ==> r is Err, // [C03,C04]
        r matches Ok(n) ==> final(dst).pos() == old(dst).pos() + n, // [C14,C03]
//@end
//@endfn
//@fn src/mmap/mod.rs :: impl<B: Bitmap> Bytes<MemoryRegionAddress> for GuestRegionMmap<B> :: read_exact_volatile_from :: tags=C03,C04,C07,C14,C18,C01 :: id=mod::GuestRegionMmap::Bytes::read_exact_volatile_from
//@sub Result<\(\), Self::E> => GmResult<()>
//@sub \.map_err\(Into::into\) => .map_err(|e: Error| -> (q: GmError) ensures q == gm_from(e) { gm_error_from(e) })
//@spec
    requires self.wf(),
        forall|st: F, w0: VolatileSlice<B::S>, w: VolatileSlice<B::S>, s: VolatileSlice<B::S>| #![trigger st.accepts(s), self.mapping.vm_sub(&w0, 0, self.s_len()), w0.vm_sub(&w, addr.0 as int, count as int)]
            self.mapping.vm_sub(&w0, 0, self.s_len()) && w0.vm_sub(&w, addr.0 as int, count as int)
            && s.is_sub(&w, st.pos() - old(src).pos(), count - (st.pos() - old(src).pos())) ==> st.accepts(s), // [C14,C01,C04,C05]
    ensures addr.0 + count > self.s_len() ==> r is Err, // [C03,C04]
        r is Ok ==> final(src).pos() == old(src).pos() + count, // [C14,C03]
        count == 0 && addr.0 <= self.s_len() ==> r is Ok && final(src).pos() == old(src).pos(), // [C18]
//@end
//@endfn
//@fn src/mmap/mod.rs :: impl<B: Bitmap> Bytes<MemoryRegionAddress> for GuestRegionMmap<B> :: write_all_volatile_to :: tags=C03,C04,C07,C14,C18,C01 :: id=mod::GuestRegionMmap::Bytes::write_all_volatile_to
//@sub Result<\(\), Self::E> => GmResult<()>
//@sub \.map_err\(Into::into\) => .map_err(|e: Error| -> (q: GmError) ensures q == gm_from(e) { gm_error_from(e) })
//@spec
    requires self.wf(),
        forall|st: F, w0: VolatileSlice<B::S>, w: VolatileSlice<B::S>, s: VolatileSlice<B::S>| #![trigger st.accepts(s), self.mapping.vm_sub(&w0, 0, self.s_len()), w0.vm_sub(&w, addr.0 as int, count as int)]
            self.mapping.vm_sub(&w0, 0, self.s_len()) && w0.vm_sub(&w, addr.0 as int, count as int)
            && s.is_sub(&w, st.pos() - old(dst).pos(), count - (st.pos() - old(dst).pos())) ==> st.accepts(s), // [C14,C01,C04,C05]
    ensures addr.0 + count > self.s_len() ==> r is Err, // [C03,C04]
        r is Ok ==> final(dst).pos() == old(dst).pos() + count, // [C14,C03]
        count == 0 && addr.0 <= self.s_len() ==> r is Ok && final(dst).pos() == old(dst).pos(), // [C18]
//@end
//@endfn
//@fn src/mmap/mod.rs :: impl<B: Bitmap> Bytes<MemoryRegionAddress> for GuestRegionMmap<B> :: write_slice :: tags=C03,C04,C07,C18 :: id=mod::GuestRegionMmap::Bytes::write_slice
//@sub guest_memory::Result< => GmResult<
//@sub \.map_err\(Into::into\) => .map_err(|e: Error| -> (q: GmError) ensures q == gm_from(e) { gm_error_from(e) })
//@spec
    requires self.wf(),
    ensures
        buf@.len() == 0 ==> r is Ok, // [C18]
        (r is Ok) == (buf@.len() == 0 || addr.0 + buf@.len() <= self.s_len()), // [C03,C04]
        buf@.len() > 0 && addr.0 < self.s_len() && addr.0 + buf@.len() > self.s_len() ==> r == Err::<(), GmError>(GmError::PartialBuffer { expected: buf@.len() as usize, completed: (self.s_len() - addr.0) as usize }), // [C03,C04]
//@end
//@endfn
//@fn src/mmap/mod.rs :: impl<B: Bitmap> Bytes<MemoryRegionAddress> for GuestRegionMmap<B> :: read_slice :: tags=C03,C04,C07,C18 :: id=mod::GuestRegionMmap::Bytes::read_slice
//@sub guest_memory::Result< => GmResult<
//@sub \.map_err\(Into::into\) => .map_err(|e: Error| -> (q: GmError) ensures q == gm_from(e) { gm_error_from(e) })
//@spec
    requires self.wf(),
    ensures
        old(buf)@.len() == 0 ==> r is Ok, // [C18]
        (r is Ok) == (old(buf)@.len() == 0 || addr.0 + old(buf)@.len() <= self.s_len()), // [C03,C04]
        old(buf)@.len() > 0 && addr.0 < self.s_len() && addr.0 + old(buf)@.len() > self.s_len() ==> r == Err::<(), GmError>(GmError::PartialBuffer { expected: old(buf)@.len() as usize, completed: (self.s_len() - addr.0) as usize }), // [C03,C04]
//@end
//@endfn
}

//@endif

//@if xen
// ------------------------------------------------------------------ mmap/xen.rs: MmapRegion as VolatileMemory (Xen build)
// The region hands out slices over its (pseudo-)address; a region that is NOT mapped in advance must give
// every slice its mapping handle, otherwise the accessors would touch the pseudo-address directly (C17).
pub struct FileOffset { pub start: u64 }
pub type MmapXen = MmapInfo;
impl MmapInfo {
    /// MmapXen::mmap_in_advance / addr (trusted boundary: flag word and mapping address of the Xen mapping;
    /// flag validity is K-xenflags' subject, the window arithmetic unit xen's)
    pub uninterp spec fn s_in_advance(&self) -> bool;
    pub uninterp spec fn s_addr(&self) -> Ptr;
    #[verifier::external_body]
    pub fn mmap_in_advance(&self) -> (r: bool) ensures r == self.s_in_advance() { unimplemented!() }
    #[verifier::external_body]
    pub fn addr(&self) -> (r: Ptr) ensures r == self.s_addr() { unimplemented!() }
}
//@item src/mmap/xen.rs :: - :: pub struct MmapRegion<B = \(\)> :: pubfields
//@enditem
impl<B: Bitmap> MmapRegion<B> {
    /// what MmapXen::new gives the region (assumed, unsafe root): `size` bytes at addr, mapped now iff in advance
    pub open spec fn wf(&self) -> bool {
        self.mmap.s_addr().wf() && self.mmap.s_addr().a + self.size <= self.mmap.s_addr().hi@
        && (self.mmap.s_in_advance() ==> self.mmap.s_addr().live@)
    }
//@fn src/mmap/xen.rs :: impl<B: Bitmap> MmapRegion<B> :: as_ptr :: tags=C01 :: id=xen::MmapRegion::as_ptr
//@spec
    ensures r == self.mmap.s_addr(),
//@end
//@endfn
//@fn src/mmap/xen.rs :: impl<B: Bitmap> MmapRegion<B> :: size :: tags=C01 :: id=xen::MmapRegion::size
//@spec
    ensures r == self.size,
//@end
//@endfn
}

impl<B: Bitmap> VolatileMemory for MmapRegion<B> {
    type B = B;
    open spec fn vm_ptr(&self) -> Ptr { self.mmap.s_addr() }
    open spec fn vm_len(&self) -> int { self.size as int }
    open spec fn vm_wf(&self) -> bool { self.wf() }
    open spec fn vm_mmap_none(&self) -> bool { self.mmap.s_in_advance() }
    open spec fn vm_exact(&self) -> bool { true }
    open spec fn vm_sub<'b>(&self, s: &VolatileSlice<'b, B::S>, off: int, count: int) -> bool {
        s.wf()
        && s.addr.lo == self.mmap.s_addr().lo && s.addr.hi == self.mmap.s_addr().hi && s.addr.live == self.mmap.s_addr().live
        && 0 <= off && 0 <= count && off + count <= self.size
        && s.addr.a == self.mmap.s_addr().a + off && s.size == count
        && shifted(&s.bitmap, &self.bitmap, off)
        // the slice carries the mapping handle exactly when the region is not mapped in advance
        && (s.mmap is None <==> self.mmap.s_in_advance())
        && (s.mmap is Some ==> s.mmap == Some(&self.mmap))
    }
//@fn src/mmap/xen.rs :: impl<B: Bitmap> VolatileMemory for MmapRegion<B> :: len :: tags=C01 :: id=xen::MmapRegion::len
//@endfn
//@fn src/mmap/xen.rs :: impl<B: Bitmap> VolatileMemory for MmapRegion<B> :: get_slice :: tags=C01,C05,C07,C17 :: id=xen::MmapRegion::get_slice
//@sub volatile_memory::Result< => Result<
//@canary slice_at0 :: self\.bitmap\.slice_at\(offset\) => self.bitmap.slice_at(0)
//@canary handle_flipped :: if self\.mmap\.mmap_in_advance\(\) => if !self.mmap.mmap_in_advance()
//@endfn
}
//@endif

proof fn canary_false()
    ensures false, // [CANARY]
{}

} // verus!
fn main() {}
