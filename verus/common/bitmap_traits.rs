// ------------------------------------------------------------------ bitmap abstraction (R5)
// The real pair  Bitmap: for<'a> WithBitmapSlice<'a>  /  BitmapSlice: Bitmap + WithBitmapSlice<S=Self>
// is cyclic, which Verus rejects; it is flattened: both traits get the ghost view below.
//   tracks(): does this bitmap record anything (false for `()` and `None`)
//   base():   byte offset of this slice's origin inside the owning region's bitmap (mod 2^64)
pub trait HasBase {
    spec fn tracks(&self) -> bool;
    spec fn base(&self) -> int;
}
pub open spec fn shifted<X: HasBase, Y: HasBase>(child: &X, parent: &Y, off: int) -> bool {
    child.tracks() == parent.tracks()
    && (parent.tracks() ==> wrap(child.base()) == wrap(parent.base() + off))
}
pub trait BitmapSlice: HasBase + Sized {
    fn slice_at(&self, offset: usize) -> (r: Self)
        ensures shifted(&r, self, offset as int);
    fn clone(&self) -> (r: Self)
        ensures shifted(&r, self, 0);
    fn mark_dirty(&self, offset: usize, len: usize);
    fn dirty_at(&self, offset: usize) -> bool;
}
pub trait Bitmap: HasBase + Sized {
    type S: BitmapSlice;
    fn slice_at(&self, offset: usize) -> (r: Self::S)
        ensures shifted(&r, self, offset as int);
    fn mark_dirty(&self, offset: usize, len: usize);
    fn dirty_at(&self, offset: usize) -> bool;
}
// glue for `impl VolatileMemory for VolatileSlice<B>` (type B = B in the real code, possible
// there because every BitmapSlice is a Bitmap with S = Self)
pub struct SliceAsBitmap<B>(pub B);
impl<B: BitmapSlice> HasBase for SliceAsBitmap<B> {
    open spec fn tracks(&self) -> bool { self.0.tracks() }
    open spec fn base(&self) -> int { self.0.base() }
}
impl<B: BitmapSlice> Bitmap for SliceAsBitmap<B> {
    type S = B;
    fn slice_at(&self, offset: usize) -> (r: B) { self.0.slice_at(offset) }
    fn mark_dirty(&self, offset: usize, len: usize) { self.0.mark_dirty(offset, len) }
    fn dirty_at(&self, offset: usize) -> bool { self.0.dirty_at(offset) }
}
