// ------------------------------------------------------------------ std combinators without a vstd spec
// (documented meaning of Result::and_then / Result::map / Result::map_err / Option::ok_or)
pub assume_specification<T, E, U, F: FnOnce(T) -> core::result::Result<U, E>> [core::result::Result::<T, E>::and_then] (res: core::result::Result<T, E>, f: F) -> (out: core::result::Result<U, E>)
    requires res matches Ok(t) ==> f.requires((t,)),
    ensures match res { Ok(t) => f.ensures((t,), out), Err(e) => out == Err::<U, E>(e) };
