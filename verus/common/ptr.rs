// the crate is verified for 64-bit targets (x86_64 / aarch64), as built here
global size_of usize == 8;

pub open spec fn wrap(x: int) -> int { x % 0x1_0000_0000_0000_0000 }

// ------------------------------------------------------------------ R1: ghost pointer model
// A raw pointer is its address plus the (ghost) bounds [lo, hi] of the allocation it was derived
// from, and a ghost flag saying whether that memory is currently mapped ("live").
#[derive(Clone, Copy)]
pub struct Ptr { pub a: usize, pub lo: Ghost<int>, pub hi: Ghost<int>, pub live: Ghost<bool> }

impl Ptr {
    pub open spec fn wf(self) -> bool {
        0 <= self.lo@ <= self.a <= self.hi@ <= usize::MAX && self.hi@ - self.lo@ <= isize::MAX
    }
    /// bytes [a, a+n) lie inside the allocation
    pub open spec fn valid_for(self, n: int) -> bool {
        n >= 0 && self.lo@ <= self.a && self.a + n <= self.hi@
    }
    // Rust's rule for ptr::add / ptr::offset: the result stays inside (or one past) the allocation
    pub fn add(self, n: usize) -> (r: Ptr)
        requires
            self.lo@ <= self.a + n <= self.hi@ <= usize::MAX, // [C01]
        ensures r.a == self.a + n, r.lo == self.lo, r.hi == self.hi, r.live == self.live
    { Ptr { a: self.a + n, lo: self.lo, hi: self.hi, live: self.live } }
    pub fn offset(self, n: isize) -> (r: Ptr)
        requires
            self.lo@ <= self.a + n <= self.hi@ <= usize::MAX, // [C01]
            n >= 0,
        ensures r.a == self.a + n, r.lo == self.lo, r.hi == self.hi, r.live == self.live
    { Ptr { a: self.a + (n as usize), lo: self.lo, hi: self.hi, live: self.live } }
    pub fn addr(self) -> (r: usize) ensures r == self.a { self.a }
    // ptr::wrapping_add / wrapping_sub: always allowed, the result keeps its provenance (and may lie outside)
    pub fn wrapping_add(self, n: usize) -> (r: Ptr)
        ensures r.a == wrap(self.a + n), r.lo == self.lo, r.hi == self.hi, r.live == self.live
    { Ptr { a: self.a.wrapping_add(n), lo: self.lo, hi: self.hi, live: self.live } }
    #[verifier::external_body]
    pub fn wrapping_offset(self, n: isize) -> (r: Ptr)
        ensures r.a == wrap(self.a + n + 0x1_0000_0000_0000_0000), r.lo == self.lo, r.hi == self.hi, r.live == self.live
    { Ptr { a: self.a.wrapping_add(n as usize), lo: self.lo, hi: self.hi, live: self.live } }
    pub fn wrapping_sub(self, n: usize) -> (r: Ptr)
        ensures r.a == wrap(self.a - n + 0x1_0000_0000_0000_0000), r.lo == self.lo, r.hi == self.hi, r.live == self.live
    { Ptr { a: self.a.wrapping_sub(n), lo: self.lo, hi: self.hi, live: self.live } }
}

// R3: panic sites become proof obligations
pub fn vassert(c: bool)
    requires c, // [C07]
{}
// R3g (per-function option asserts=guard): assert! as the function's own documented bound check --
// control continues only if the condition held (a panic is a safe refusal, not a handed-out reference)
#[verifier::external_body]
pub fn vguard(c: bool)
    ensures c,
{ if !c { panic!() } }
// the same with a panic-freedom obligation under a ghost condition g (e.g. "the implementor is one of
// the crate's own, whose get_slice is exact"): must not fire when g holds, and guards in any case
#[verifier::external_body]
pub fn vguardif(Ghost(g): Ghost<bool>, c: bool)
    requires g ==> c, // [C07]
    ensures c,
{ if !c { panic!() } }
// R3d: is this a build with debug assertions?  (no contract: both answers are verified)
#[verifier::external_body]
pub fn vdebug() -> bool { cfg!(debug_assertions) }
// R3u: unwrap() as a guard
#[verifier::external_body]
pub fn result_unwrap_guard<T, E>(r: core::result::Result<T, E>) -> (v: T)
    ensures r is Ok, r matches Ok(x) && x == v,
{ match r { Ok(x) => x, Err(_) => panic!() } }
pub fn vunreachable()
    requires false, // [C07]
{}
// R4
pub fn vmin(a: usize, b: usize) -> (r: usize)
    ensures r == if a <= b { a } else { b }
{ if a <= b { a } else { b } }
pub fn vmin64(a: u64, b: u64) -> (r: u64)
    ensures r == if a <= b { a } else { b }
{ if a <= b { a } else { b } }
