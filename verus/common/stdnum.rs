// ------------------------------------------------------------------ R4: std integer items without a vstd spec.
// Each contract below is the documented meaning of the std function; K-stdnum cross-checks each one
// against 128-bit arithmetic on the real std code (Kani, loop-free, complete).
pub assume_specification [<isize as TryFrom<usize>>::try_from] (n: usize) -> (r: core::result::Result<isize, <isize as TryFrom<usize>>::Error>)
    ensures n <= isize::MAX ==> r is Ok && r.unwrap() == n as isize, n > isize::MAX ==> r is Err;
pub assume_specification [usize::div_ceil] (a: usize, b: usize) -> (r: usize)
    requires b > 0, // [C07]
    ensures r == (a + b - 1) / b as int;
pub assume_specification [u64::overflowing_add] (a: u64, b: u64) -> (r: (u64, bool))
    ensures r.1 == (a + b > u64::MAX), r.0 == (a + b) % 0x1_0000_0000_0000_0000;
pub assume_specification [u64::overflowing_sub] (a: u64, b: u64) -> (r: (u64, bool))
    ensures r.1 == (a - b < 0), r.0 == (a - b) % 0x1_0000_0000_0000_0000;
