// V-xen (C17, Xen build): on-demand grant windows -- MmapXenSlice::new_with maps a window that covers
// every byte of the access, hands out the address of the first byte, and Drop releases exactly that
// window.  Extracted from src/mmap/xen.rs (cfg: feature xen).  The grant device is modelled by two
// uninterpreted ghost functions of the window index (how many pages / which guest page it was granted
// for); the ioctl wrappers are the trusted boundary.
#![allow(unused_imports, dead_code, unused_variables, unused_unsafe, unused_mut, unused_parens)]
use vstd::prelude::*;

verus! {

//@include ../common/ptr.rs
//@include ../common/stdnum.rs
//@include ../common/address.rs

pub uninterp spec fn ps() -> int;
pub axiom fn ps_props() ensures ps() >= 1, ps() <= 0x1_0000_0000;
pub fn page_size() -> (r: u64) ensures r == ps()
{ proof { ps_props(); } page_size_ext() }
#[verifier::external_body]
fn page_size_ext() -> (r: u64) ensures r == ps() { unimplemented!() }

/// ghost state of the grant device, as a function of the window index returned by the map ioctl
pub uninterp spec fn window_count(index: u64) -> int;
pub uninterp spec fn window_base(index: u64) -> int;
pub open spec fn ceil_pages(size: int) -> int { (size + ps() - 1) / ps() }

#[derive(Debug)]
pub enum Error { Mmap(i32), UnexpectedError }
pub type Result<T> = core::result::Result<T, Error>;

/// a plain mmap of `size` bytes of the grant device at file offset `index`
pub struct MmapUnix { pub addr: Ptr, pub size: usize, pub gindex: Ghost<u64> }
impl MmapUnix {
    #[verifier::external_body]
    pub fn new(size: usize, prot: i32, flags: i32, fd: i32, f_offset: u64) -> (r: Result<MmapUnix>)
        ensures r matches Ok(m) ==> m.size == size && m.addr.wf() && m.addr.valid_for(size as int) && m.addr.live@ && m.addr.lo@ == m.addr.a && m.gindex@ == f_offset
    { unimplemented!() }
    pub fn addr(&self) -> (r: Ptr) ensures r == self.addr { self.addr }
}
/// std::mem::drop of the mapping (MmapUnix::drop munmaps addr/size -- K-region's subject)
#[verifier::external_body]
pub fn drop(m: MmapUnix) { unimplemented!() }

pub struct FileOffset { pub fd: i32 }
//@item src/mmap/xen.rs :: - :: struct MmapXenGrant :: pubfields
//@sub ^struct MmapXenGrant => pub struct MmapXenGrant
//@enditem
impl MmapXenGrant {
    pub fn as_raw_fd(&self) -> i32 { self.file_offset.fd }
    /// IOCTL_GNTDEV_MAP_GRANT_REF for `count` pages starting at guest address `addr`
    #[verifier::external_body]
    pub fn mmap_ioctl(&self, addr: GuestAddress, count: usize) -> (r: Result<u64>)
        ensures r matches Ok(idx) ==> window_count(idx) == count && window_base(idx) == addr.0
    { unimplemented!() }
    /// IOCTL_GNTDEV_UNMAP_GRANT_REF: the device only knows (index, count) pairs it handed out
    #[verifier::external_body]
    pub fn unmap_ioctl(&self, count: u32, index: u64) -> (r: Result<()>)
        requires window_count(index) == count, // [C17]
        ensures r is Ok
    { unimplemented!() }
    #[verifier::external_body]
    pub fn clone(&self) -> (r: MmapXenGrant) ensures r.guest_base == self.guest_base, r.flags == self.flags { unimplemented!() }

//@fn src/mmap/xen.rs :: impl MmapXenGrant :: mmap_range :: tags=C17,C07
//@spec
    requires size + ps() <= usize::MAX,
    ensures r matches Ok(p) ==> p.0.size == ceil_pages(size as int) * ps() && p.0.size >= size
        && p.0.addr.wf() && p.0.addr.valid_for(p.0.size as int) && p.0.addr.live@ && p.0.addr.lo@ == p.0.addr.a
        && window_count(p.1) == ceil_pages(size as int) && window_base(p.1) == addr.0, // [C17]
//@end
//@endfn

//@fn src/mmap/xen.rs :: impl MmapXenGrant :: unmap_range :: tags=C17,C07
//@spec
    requires size + ps() <= usize::MAX, window_count(index) == ceil_pages(size as int), ceil_pages(size as int) <= u32::MAX, // [C17]
//@end
//@endfn
}

//@fn src/mmap/xen.rs :: - :: pages :: tags=C17,C07
//@sub ^fn pages => pub fn pages
//@spec
    requires size + ps() <= usize::MAX,
    ensures r.0 == ceil_pages(size as int), r.1 == ceil_pages(size as int) * ps(), r.1 >= size, // [C17]
//@end
//@before 0 /-/
    proof {
        ps_props();
        let n = ceil_pages(size as int);
        assert(n * ps() >= size && n * ps() <= size + ps() - 1 && n >= 0) by (nonlinear_arith)
            requires n == (size + ps() - 1) / ps(), ps() >= 1, size >= 0;
    }
//@end
//@endfn

//@item src/mmap/xen.rs :: - :: pub\(crate\) struct MmapXenSlice :: pubfields
//@sub ^pub\(crate\) struct MmapXenSlice => pub struct MmapXenSlice
//@enditem

impl MmapXenSlice {
    /// what a slice must remember to be able to give its window back: the window it holds was granted
    /// for exactly ceil(size / page) pages under `index`
    pub open spec fn inv(&self) -> bool {
        self.unix_mmap is Some ==> (self.grant is Some && self.size + ps() <= usize::MAX
            && window_count(self.index) == ceil_pages(self.size as int) && ceil_pages(self.size as int) <= u32::MAX)
    }
//@fn src/mmap/xen.rs :: impl MmapXenSlice :: raw :: tags=C17
//@spec
    ensures r.addr == addr, r.unix_mmap is None, r.inv(),
//@end
//@endfn
//@fn src/mmap/xen.rs :: impl MmapXenSlice :: new_with :: tags=C17,C07
//@spec
    requires offset + size + 2 * ps() <= usize::MAX, grant.guest_base.0 + offset <= u64::MAX, ceil_pages(ps() + size) <= u32::MAX,
    ensures r matches Ok(s) ==> s.inv() && s.unix_mmap is Some
        // the window starts at the page that contains the first byte ...
        && window_base(s.index) == grant.guest_base.0 + (offset as int / ps()) * ps()
        // ... the pointer handed out is the first byte of the access inside the window ...
        && s.addr.a == s.unix_mmap.unwrap().addr.a + offset as int % ps()
        // ... and the window covers every byte the access touches
        && s.addr.valid_for(size as int) && s.addr.live@, // [C17]
//@end
//@before 0 /-/
        let ghost off0 = offset as int;
        let ghost size0 = size as int;
        proof {
            ps_props();
            let p = ps();
            assert((off0 / p) * p <= off0 && off0 - (off0 / p) * p == off0 % p && 0 <= off0 % p < p && 0 <= (off0 / p) * p) by (nonlinear_arith) requires p >= 1, off0 >= 0;
            vstd::arithmetic::div_mod::lemma_div_is_ordered(off0 % p + size0 + p - 1, p + size0 + p - 1, p);
        }
//@end
//@canary forget_offset :: grant\.mmap_range\(GuestAddress\(addr\), size, prot\) => grant.mmap_range(GuestAddress(addr), size - offset, prot)
//@endfn
//@fn src/mmap/xen.rs :: impl MmapXenSlice :: addr :: tags=C17
//@spec
    ensures r == self.addr,
//@end
//@endfn
//@fn src/mmap/xen.rs :: impl Drop for MmapXenSlice :: drop :: tags=C17,C07
//@spec
    requires old(self).inv(),
    ensures final(self).unix_mmap is None, // [C17]
//@end
//@endfn
}

proof fn canary_false()
    ensures false, // [CANARY]
{}

} // verus!
fn main() {}
