// V-xen (C17, Xen build): on-demand grant windows -- MmapXenSlice::new_with maps a window that covers
// every byte of the access, hands out the address of the first byte, and Drop releases exactly that
// window.  Extracted from src/mmap/xen.rs (cfg: feature xen).  The grant device is modelled by two
// uninterpreted ghost functions of the window index (how many pages / which guest page it was granted
// for); the ioctl wrappers are the trusted boundary.
#![allow(unused_imports, dead_code, unused_variables, unused_unsafe, unused_mut, unused_parens)]
use vstd::prelude::*;

verus! {

//@include ../common/ptr.rs
//@include ../common/stdnum.rs
//@include ../common/address.rs

pub uninterp spec fn ps() -> int;
pub axiom fn ps_props() ensures ps() >= 1, ps() <= 0x1_0000_0000;
pub fn page_size() -> (r: u64) ensures r == ps()
{ proof { ps_props(); } page_size_ext() }
#[verifier::external_body]
fn page_size_ext() -> (r: u64) ensures r == ps() { unimplemented!() }

pub const XEN_GRANT_ADDR_OFF: u64 = 1 << 63;
pub open spec fn page_size_spec() -> u64 { ps() as u64 }
/// the map request handed to the grant device (GntDevMapGrantRef::new fills refs base, base+1, ... for `count` pages)
pub struct GntReq { pub index: u64, pub first_ref: Ghost<int>, pub count: Ghost<int>, pub for_addr: Ghost<int> }
#[verifier::external_body]
pub fn gnt_map_request(domid: u32, base: u32, count: usize) -> (r: Result<GntReq>)
    ensures r matches Ok(q) ==> q.first_ref@ == base && q.count@ == count
{ unimplemented!() }
pub uninterp spec fn window_first_ref(index: u64) -> int;
/// ghost state of the grant device, as a function of the window index returned by the map ioctl
pub uninterp spec fn window_count(index: u64) -> int;
pub uninterp spec fn window_base(index: u64) -> int;
pub open spec fn ceil_pages(size: int) -> int { (size + ps() - 1) / ps() }

#[derive(Debug)]
pub enum Error { Mmap(i32), UnexpectedError }
pub type Result<T> = core::result::Result<T, Error>;

// ------------------------------------------------------------------ MmapUnix: the owner of a plain mmap (C12)
/// libc::mmap(NULL, size, prot, flags, fd, offset) (trusted boundary): MAP_FAILED, or a fresh live
/// mapping of exactly `size` bytes whose first byte is the returned address
pub uninterp spec fn map_failed(p: Ptr) -> bool;
pub uninterp spec fn mapped_offset(p: Ptr) -> u64;
#[verifier::external_body]
pub fn libc_mmap(size: usize, prot: i32, flags: i32, fd: i32, off: u64) -> (r: Ptr)
    ensures !map_failed(r) ==> r.wf() && r.lo@ == r.a && r.hi@ == r.a + size && r.live@ && mapped_offset(r) == off,
{ unimplemented!() }
#[verifier::external_body]
pub fn is_map_failed(p: Ptr) -> (b: bool) ensures b == map_failed(p) { unimplemented!() }
/// libc::munmap(addr, len).  The precondition is C12's "unmapped exactly": the call must give back
/// exactly one whole mapping made by libc_mmap -- from its first byte, over its whole length (a shorter
/// length leaks the tail, a shifted address leaks the head and unmaps somebody else's pages).
/// The pointer is passed by `&mut` (R2, this unit) so that the EFFECT is visible: afterwards the mapping
/// is gone.  An owner's Drop must establish that - a path on which munmap is not reached leaks.
#[verifier::external_body]
pub fn libc_munmap(p: &mut Ptr, len: usize) -> (r: i32)
    requires
        old(p).lo@ == old(p).a, // [C12]
        old(p).hi@ == old(p).a + len, // [C12]
        old(p).live@, // [C12]
    ensures !final(p).live@, final(p).a == old(p).a, final(p).lo == old(p).lo, final(p).hi == old(p).hi,
{ unimplemented!() }
#[verifier::external_body]
pub fn last_os_error() -> (r: i32) { unimplemented!() }

//@item src/mmap/xen.rs :: - :: struct MmapUnix :: pubfields
//@sub ^struct MmapUnix => pub struct MmapUnix
//@enditem
/// `#[derive(Clone)]` of the source (attributes are dropped by the extraction): a field-wise copy.  Note
/// that a copy of an OWNER is a second owner of the same mapping - whoever clones must not drop both.
impl Clone for MmapUnix {
    fn clone(&self) -> (r: Self) ensures r == *self { MmapUnix { addr: self.addr, size: self.size } }
}
impl MmapUnix {
    /// the owner invariant: this value holds exactly one whole live mapping (what Drop gives back)
    pub open spec fn owns(&self) -> bool {
        self.addr.wf() && self.addr.lo@ == self.addr.a && self.addr.hi@ == self.addr.a + self.size && self.addr.live@
    }
//@fn src/mmap/xen.rs :: impl MmapUnix :: new :: tags=C12,C17,C07
//@sub libc::mmap\(null_mut\(\), => libc_mmap(
//@sub f_offset as libc::off_t => f_offset
//@sub addr == libc::MAP_FAILED => is_map_failed(addr)
//@sub io::Error::last_os_error\(\) => last_os_error()
//@sub addr as Ptr => addr
//@spec
    ensures r matches Ok(m) ==> m.owns() && m.size == size && mapped_offset(m.addr) == f_offset, // [C12,C17]
//@end
//@endfn
//@fn src/mmap/xen.rs :: impl MmapUnix :: addr :: tags=C12,C17
//@spec
    ensures r == self.addr,
//@end
//@endfn
}
impl MmapUnix {
//@fn src/mmap/xen.rs :: impl Drop for MmapUnix :: drop :: tags=C12,C07 :: id=xen::MmapUnix::drop
//@sub libc::munmap\(self\.addr as \*mut libc::c_void, => libc_munmap(&mut self.addr,
//@spec
    requires old(self).owns(), // the invariant every holder must have kept
    // the mapping is released on EVERY path (debug and release builds)
    ensures !final(self).addr.live@, // [C12]
//@end
//@endfn
}
/// std::mem::drop of the mapping: runs the destructor above, so the value must still satisfy the
/// owner invariant at that point
pub fn drop(m: MmapUnix)
    requires m.owns(), // [C12]
{ let mut m = m; m.drop(); }

// MmapXenUnix: plain Unix mapping used when neither foreign nor grant is requested
pub struct MmapRange { pub size: usize, pub file_offset: Option<FileOffset>, pub prot: Option<i32>, pub flags: Option<i32> }
#[verifier::external_body]
pub fn check_file_offset(f: &FileOffset, size: usize) -> (r: Result<()>) { unimplemented!() }
pub struct File { pub fd: i32 }
impl File { pub fn as_raw_fd(&self) -> i32 { self.fd } }
pub struct MmapXenUnix(pub MmapUnix); // declaration (tuple struct, as in the source)
impl MmapXenUnix {
//@fn src/mmap/xen.rs :: impl MmapXenUnix :: new :: tags=C12,C07
//@spec
    ensures r matches Ok(m) ==> m.0.owns() && m.0.size == range.size, // [C12]
//@end
//@endfn
}

pub struct FileOffset { pub fd: i32, pub f: File, pub start: u64 }
impl FileOffset {
    pub fn file(&self) -> (r: &File) ensures r.fd == self.f.fd { &self.f }
    pub fn start(&self) -> (r: u64) ensures r == self.start { self.start }
}
//@item src/mmap/xen.rs :: - :: struct MmapXenGrant :: pubfields
//@sub ^struct MmapXenGrant => pub struct MmapXenGrant
//@enditem
impl MmapXenGrant {
    pub fn as_raw_fd(&self) -> i32 { self.file_offset.fd }
    // IOCTL_GNTDEV_MAP_GRANT_REF for `count` pages starting at guest address `addr`: the real function;
    // the FAM wrapper, the ioctl and errno are the trusted boundary below
//@fn src/mmap/xen.rs :: impl MmapXenGrant :: mmap_ioctl :: tags=C17,C07
//@sub GntDevMapGrantRef::new\(self\.domid, base, count\)\? => gnt_map_request(self.domid, base, count)?
//@sub wrapper\.as_fam_struct_ref\(\) => &wrapper
//@sub ioctl_with_ref\(self, ioctl_gntdev_map_grant_ref\(\), reference\) => self.ioctl_map_grant_ref(reference, Ghost(addr.0))
//@sub io::Error::last_os_error\(\) => last_os_error()
//@before 0 /-/
        proof { ps_props(); }
//@end
//@spec
    ensures r matches Ok(idx) ==> window_count(idx) == count && window_base(idx) == addr.0
        // the window is requested for the grant references of the guest pages it is meant to show
        // (grant references are 32 bit in the Xen ABI: addresses whose page number does not fit are out of its reach)
        && ((addr.0 & !XEN_GRANT_ADDR_OFF) / page_size_spec() <= u32::MAX ==> window_first_ref(idx) == (addr.0 & !XEN_GRANT_ADDR_OFF) / page_size_spec()), // [C17]
//@end
//@canary truncate_first :: \(\(addr\.0 & !XEN_GRANT_ADDR_OFF\) / page_size\(\)\) as u32 => ((addr.0 & !XEN_GRANT_ADDR_OFF) as u32 / page_size() as u32)
//@endfn
    /// the map ioctl (trusted boundary): on success the device has granted `count` pages starting with
    /// grant reference `first_ref` under the returned index; `for_addr` names (ghost) the guest address the
    /// caller means them to show - that they DO show it is exactly the first_ref obligation of mmap_ioctl
    #[verifier::external_body]
    pub fn ioctl_map_grant_ref(&self, q: &GntReq, Ghost(for_addr): Ghost<u64>) -> (ret: i32)
        ensures ret == 0 ==> window_count(q.index) == q.count@ && window_first_ref(q.index) == q.first_ref@ && window_base(q.index) == for_addr
    { unimplemented!() }
    /// IOCTL_GNTDEV_UNMAP_GRANT_REF: the device only knows (index, count) pairs it handed out
    #[verifier::external_body]
    pub fn unmap_ioctl(&self, count: u32, index: u64) -> (r: Result<()>)
        requires window_count(index) == count, // [C17]
        ensures r is Ok
    { unimplemented!() }
    #[verifier::external_body]
    pub fn clone(&self) -> (r: MmapXenGrant) ensures r.guest_base == self.guest_base, r.flags == self.flags { unimplemented!() }

//@fn src/mmap/xen.rs :: impl MmapXenGrant :: mmap_range :: tags=C17,C07
//@spec
    requires size + ps() <= usize::MAX,
    ensures r matches Ok(p) ==> p.0.size == ceil_pages(size as int) * ps() && p.0.size >= size
        && p.0.owns() && p.0.addr.valid_for(p.0.size as int)
        && window_count(p.1) == ceil_pages(size as int) && window_base(p.1) == addr.0, // [C17]
//@end
//@endfn

//@fn src/mmap/xen.rs :: impl MmapXenGrant :: unmap_range :: tags=C17,C07
//@spec
    requires size + ps() <= usize::MAX, window_count(index) == ceil_pages(size as int), ceil_pages(size as int) <= u32::MAX, // [C17]
        unix_mmap.owns(), // [C12]
//@end
//@endfn
}

//@fn src/mmap/xen.rs :: - :: pages :: tags=C17,C07
//@sub ^fn pages => pub fn pages
//@spec
    requires size + ps() <= usize::MAX,
    ensures r.0 == ceil_pages(size as int), r.1 == ceil_pages(size as int) * ps(), r.1 >= size, // [C17]
//@end
//@before 0 /-/
    proof {
        ps_props();
        let n = ceil_pages(size as int);
        assert(n * ps() >= size && n * ps() <= size + ps() - 1 && n >= 0) by (nonlinear_arith)
            requires n == (size + ps() - 1) / ps(), ps() >= 1, size >= 0;
        assert(ps() * n == n * ps()) by (nonlinear_arith);
        assert(ps() * n <= usize::MAX);
    }
//@end
//@endfn

//@item src/mmap/xen.rs :: - :: pub\(crate\) struct MmapXenSlice :: pubfields
//@sub ^pub\(crate\) struct MmapXenSlice => pub struct MmapXenSlice
//@enditem

impl MmapXenSlice {
    /// what a slice must remember to be able to give its window back: the window it holds was granted
    /// for exactly ceil(size / page) pages under `index`
    pub open spec fn inv(&self) -> bool {
        self.unix_mmap is Some ==> (self.grant is Some && self.unix_mmap.unwrap().owns() && self.size + ps() <= usize::MAX
            && window_count(self.index) == ceil_pages(self.size as int) && ceil_pages(self.size as int) <= u32::MAX)
    }
//@fn src/mmap/xen.rs :: impl MmapXenSlice :: raw :: tags=C17
//@spec
    ensures r.addr == addr, r.unix_mmap is None, r.inv(),
//@end
//@endfn
//@fn src/mmap/xen.rs :: impl MmapXenSlice :: new_with :: tags=C17,C07
//@spec
    requires offset + size + 2 * ps() <= usize::MAX, grant.guest_base.0 + offset <= u64::MAX, ceil_pages(ps() + size) <= u32::MAX,
    ensures r matches Ok(s) ==> s.inv() && s.unix_mmap is Some
        // the window starts at the page that contains the first byte ...
        && window_base(s.index) == grant.guest_base.0 + (offset as int / ps()) * ps()
        // ... the pointer handed out is the first byte of the access inside the window ...
        && s.addr.a == s.unix_mmap.unwrap().addr.a + offset as int % ps()
        // ... and the window covers every byte the access touches
        && s.addr.valid_for(size as int) && s.addr.live@, // [C17]
//@end
//@before 0 /-/
        let ghost off0 = offset as int;
        let ghost size0 = size as int;
        proof {
            ps_props();
            let p = ps();
            assert((off0 / p) * p <= off0 && off0 - (off0 / p) * p == off0 % p && 0 <= off0 % p < p && 0 <= (off0 / p) * p) by (nonlinear_arith) requires p >= 1, off0 >= 0;
            vstd::arithmetic::div_mod::lemma_div_is_ordered(off0 % p + size0 + p - 1, p + size0 + p - 1, p);
        }
//@end
//@canary forget_offset :: grant\.mmap_range\(GuestAddress\(addr\), size, prot\) => grant.mmap_range(GuestAddress(addr), size - offset, prot)
//@endfn
//@fn src/mmap/xen.rs :: impl MmapXenSlice :: addr :: tags=C17
//@spec
    ensures r == self.addr,
//@end
//@endfn
//@fn src/mmap/xen.rs :: impl Drop for MmapXenSlice :: drop :: tags=C17,C07
//@spec
    requires old(self).inv(),
    // the slice gives up its mapping: nothing is left to be unmapped a second time
    ensures final(self).unix_mmap is None, // [C17,C12]
//@end
//@endfn
}

// ------------------------------------------------------------------ MmapXen::mmap: where every guard gets its window
/// the flavour behind a region (`Box<dyn MmapXenTrait>` in the source; a type parameter here - dynamic
/// dispatch is outside Verus): a window that is granted covers the access and is live
pub trait MmapXenTrait {
    fn mmap_slice(&self, addr: Ptr, prot: i32, len: usize) -> (r: Result<MmapXenSlice>)
        ensures r matches Ok(s) ==> s.inv() && s.addr.wf() && s.addr.valid_for(len as int) && s.addr.live@;
}
pub struct MmapXen<M: MmapXenTrait> { pub mmap: M }
impl<M: MmapXenTrait> MmapXen<M> {
//@fn src/mmap/xen.rs :: impl MmapXen\b :: mmap :: tags=C17,C07 unwraps=guard
//@sub Option<&Self> => Option<&MmapXen<M>>
//@spec
    ensures
        // an on-demand region (mapping info present): the access gets a live window covering it, or the
        // call does not return (a refused window is a panic BEFORE the access, never an access without one)
        mmap_xen is Some ==> r.inv() && r.addr.wf() && r.addr.valid_for(len as int) && r.addr.live@, // [C17]
        // memory mapped in advance: the address is used as it is
        mmap_xen is None ==> r.addr == addr && r.unix_mmap is None, // [C17]
//@end
//@endfn
}

proof fn canary_false()
    ensures false, // [CANARY]
{}

} // verus!
fn main() {}
