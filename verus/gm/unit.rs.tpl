// V-gm: guest_memory.rs trait default methods and the blanket Bytes<GuestAddress> impl under
// contract (C02 C03 C07 C18).  Function bodies are cut out of /repo at run time.
#![allow(unused_imports, dead_code, unused_variables, unused_unsafe, unused_mut, unused_parens)]
use vstd::prelude::*;

verus! {

//@include ../common/ptr.rs
//@include ../common/stdnum.rs
//@include ../common/stdopt.rs
//@include ../common/address.rs

// opaque stand-ins for types this unit only passes around
pub struct HostPtr { pub a: usize }
pub struct VolatileSlice { pub addr: usize, pub size: usize }
pub struct VmError { pub code: int }

#[derive(Debug)]
pub struct IoError { pub code: i32 }
#[derive(Debug)]
pub enum Error {
    InvalidGuestAddress(GuestAddress),
    IOError(IoError),
    PartialBuffer { expected: usize, completed: usize },
    InvalidBackendAddress,
    HostAddressNotAvailable,
    CallbackOutOfRange,
    GuestAddressOverflow,
}
pub type Result<T> = core::result::Result<T, Error>;
pub trait AtomicAccess: Sized {}
#[derive(Clone, Copy)]
pub struct Ordering { pub o: u8 }

// ------------------------------------------------------------------ GuestMemoryRegion
/// type invariant established by GuestRegionMmap::new (proved in V-mmapcol): non-wrapping range.
/// `len > 0` is what mmap guarantees for every region that exists.
pub open spec fn rwf<R: GuestMemoryRegion>(r: &R) -> bool {
    r.wf()
}
pub open spec fn rcontains<R: GuestMemoryRegion>(r: &R, a: int) -> bool {
    r.s_start() <= a < r.s_start() + r.s_len()
}
pub trait GuestMemoryRegion: Sized {
    /// ghost view: the region covers guest addresses [s_start, s_start + s_len)
    spec fn s_start(&self) -> int;
    spec fn s_len(&self) -> int;
    spec fn wf(&self) -> bool;
    /// what wf means (a trait-level lemma every implementor must prove)
    proof fn wf_props(&self)
        requires self.wf(),
        ensures 0 <= self.s_start() && 0 < self.s_len() && self.s_start() + self.s_len() <= u64::MAX;

    fn len(&self) -> (r: GuestUsize)
        ensures r == self.s_len();
    fn start_addr(&self) -> (r: GuestAddress)
        ensures r.0 == self.s_start();
    /// region-level results are passed through unchanged by the guest-level defaults; their own
    /// contracts live in V-vol (MmapRegion::get_slice) and V-mmapcol (GuestRegionMmap)
    spec fn s_get_slice(&self, off: MemoryRegionAddress, count: usize) -> Result<VolatileSlice>;
    spec fn s_get_host_address(&self, off: MemoryRegionAddress) -> Result<Ptr>;
    // ---- supertrait Bytes<MemoryRegionAddress>: region-level byte access.  These trait-level
    // contracts are what a region must provide; for GuestRegionMmap they follow from V-vol
    // (VolatileSlice::write/read contract through as_volatile_slice(), proved in V-mmapcol).
    fn write(&self, buf: &[u8], addr: MemoryRegionAddress) -> (r: Result<usize>)
        requires self.wf(),
        ensures
            buf@.len() == 0 ==> r == Ok::<usize, Error>(0),
            buf@.len() > 0 && addr.0 >= self.s_len() ==> r is Err,
            buf@.len() > 0 && addr.0 < self.s_len() ==> r == Ok::<usize, Error>(if buf@.len() <= self.s_len() - addr.0 { buf@.len() as usize } else { (self.s_len() - addr.0) as usize });
    fn read(&self, buf: &mut [u8], addr: MemoryRegionAddress) -> (r: Result<usize>)
        requires self.wf(),
        ensures
            final(buf)@.len() == old(buf)@.len(),
            old(buf)@.len() == 0 ==> r == Ok::<usize, Error>(0),
            old(buf)@.len() > 0 && addr.0 >= self.s_len() ==> r is Err,
            old(buf)@.len() > 0 && addr.0 < self.s_len() ==> r == Ok::<usize, Error>(if old(buf)@.len() <= self.s_len() - addr.0 { old(buf)@.len() as usize } else { (self.s_len() - addr.0) as usize });
    spec fn s_store<O>(&self, val: O, addr: MemoryRegionAddress, order: Ordering) -> Result<()>;
    spec fn s_load<O>(&self, addr: MemoryRegionAddress, order: Ordering) -> Result<O>;
    fn store<O: AtomicAccess>(&self, val: O, addr: MemoryRegionAddress, order: Ordering) -> (r: Result<()>)
        ensures r == self.s_store(val, addr, order);
    fn load<O: AtomicAccess>(&self, addr: MemoryRegionAddress, order: Ordering) -> (r: Result<O>)
        ensures r == self.s_load::<O>(addr, order);
    fn get_host_address(&self, addr: MemoryRegionAddress) -> (r: Result<Ptr>)
        ensures r == self.s_get_host_address(addr);
    fn get_slice(&self, offset: MemoryRegionAddress, count: usize) -> (r: Result<VolatileSlice>)
        ensures r == self.s_get_slice(offset, count);

//@fn src/guest_memory.rs :: pub trait GuestMemoryRegion :: last_addr :: tags=C02,C07
//@before 0 /-/
        proof { self.wf_props(); }
//@end
//@spec
        requires self.wf(),
        ensures r.0 == self.s_start() + self.s_len() - 1, // [C02]
//@end
//@canary minus2 :: self\.len\(\) - 1 => self.len() - 2
//@endfn

//@fn src/guest_memory.rs :: pub trait GuestMemoryRegion :: check_address :: tags=C02,C07
//@before 0 /-/
        proof { self.wf_props(); }
//@end
//@spec
        requires self.wf(),
        ensures r == (if addr.0 < self.s_len() { Some(addr) } else { None::<MemoryRegionAddress> }), // [C02]
//@end
//@endfn

//@fn src/guest_memory.rs :: pub trait GuestMemoryRegion :: address_in_range :: tags=C02,C07
//@before 0 /-/
        proof { self.wf_props(); }
//@end
//@spec
        requires self.wf(),
        ensures r == (addr.0 < self.s_len()), // [C02]
//@end
//@canary le :: addr\.raw_value\(\) < self\.len\(\) => addr.raw_value() <= self.len()
//@endfn

//@fn src/guest_memory.rs :: pub trait GuestMemoryRegion :: checked_offset :: tags=C02,C07
//@sub \|addr\| self\.check_address\(addr\) => |addr: MemoryRegionAddress| -> (r: Option<MemoryRegionAddress>) requires self.wf() ensures r == (if addr.0 < self.s_len() { Some(addr) } else { None::<MemoryRegionAddress> }) { self.check_address(addr) }
//@before 0 /-/
        proof { self.wf_props(); }
//@end
//@spec
        requires self.wf(),
        ensures r == (if base.0 + offset < self.s_len() { Some(MemoryRegionAddress((base.0 + offset) as u64)) } else { None::<MemoryRegionAddress> }), // [C02]
//@end
//@endfn

//@fn src/guest_memory.rs :: pub trait GuestMemoryRegion :: to_region_addr :: tags=C02,C07
//@sub \|offset\| self\.check_address\(MemoryRegionAddress\(offset\)\) => |offset: u64| -> (r: Option<MemoryRegionAddress>) requires self.wf() ensures r == (if offset < self.s_len() { Some(MemoryRegionAddress(offset)) } else { None::<MemoryRegionAddress> }) { self.check_address(MemoryRegionAddress(offset)) }
//@before 0 /-/
        proof { self.wf_props(); }
//@end
//@spec
        requires self.wf(),
        ensures r == (if (self.s_start() <= addr.0 < self.s_start() + self.s_len()) { Some(MemoryRegionAddress((addr.0 - self.s_start()) as u64)) } else { None::<MemoryRegionAddress> }), // [C02,C03]
//@end
//@canary wrong_base :: addr\.checked_offset_from\(self\.start_addr\(\)\) => addr.checked_offset_from(GuestAddress(0))
//@endfn
}

// ------------------------------------------------------------------ GuestMemory
//@def mapped(m, a) := ($m.s_find($a) is Some)
// every address in [lo, hi) is mapped
//@def run_mapped(m, lo, hi) := (forall|a_: int| $lo <= a_ < $hi ==> (#[trigger] $m.s_find(a_)) is Some)
// the only arguments try_access may hand to its callback: chunk `o` bytes into the request lives in
// region `r` (the one owning guest address addr+o) at region offset `s`, and is `l` bytes long: to
// the end of that region or the end of the request, whichever comes first
//@def good_args(m, addr, count, o, l, s, r) := (0 <= $o <= $count && ($count > 0 ==> $o < $count) && $addr + $o <= u64::MAX && $m.s_find($addr + $o) == Some($r) && $s.0 == $addr + $o - $r.s_start() && $l == (if $r.s_len() - $s.0 <= $count - $o { $r.s_len() - $s.0 } else { $count - $o }) && ($count > 0 ==> $l >= 1) && $r.wf() && 0 <= $r.s_start() && $s.0 < $r.s_len() && $r.s_start() + $r.s_len() <= u64::MAX && (forall|a_: int| $addr <= a_ < $addr + $o ==> (#[trigger] $m.s_find(a_)) is Some))

pub trait GuestMemory: Sized {
    type R: GuestMemoryRegion;
    /// ghost view of the collection: the lookup function "which region owns address a"
    spec fn s_find(&self, a: int) -> Option<&Self::R>;
    spec fn gm_wf(&self) -> bool;
    /// what being a collection of regions means for the lookup (discharged for GuestMemoryMmap in
    /// V-mmapcol from the sorted-disjoint invariant): a found region is well formed, contains the
    /// address, and owns every address in its range.
    proof fn find_props(&self, a: int)
        requires self.gm_wf(),
        ensures self.s_find(a) matches Some(r) ==> r.wf() && 0 <= r.s_start() && 0 < r.s_len() && r.s_start() + r.s_len() <= u64::MAX && rcontains(r, a)
            && (forall|b: int| rcontains(r, b) ==> (#[trigger] self.s_find(b)) == Some(r));

    fn num_regions(&self) -> usize;
    /// Bytes::write_obj / read_obj: provided methods of the Bytes trait (bytes.rs, on top of write_slice /
    /// read_slice).  Declared WITHOUT a contract so that a changed body that reaches for them still
    /// type-checks; nothing can be concluded from such a call.
    fn write_obj<O>(&self, val: O, addr: GuestAddress) -> Result<()>;
    fn read_obj<O>(&self, addr: GuestAddress) -> Result<O>;
    fn find_region(&self, addr: GuestAddress) -> (r: Option<&Self::R>)
        requires self.gm_wf(),
        ensures r == self.s_find(addr.0 as int);

//@fn src/guest_memory.rs :: pub trait GuestMemory\b :: to_region_addr :: tags=C02,C07
//@sub \|r\| \(r, r\.to_region_addr\(addr\)\.unwrap\(\)\) => |r: &Self::R| -> (q: (&Self::R, MemoryRegionAddress)) requires rwf(r), rcontains(r, addr.0 as int), 0 <= r.s_start() ensures q.0 == r, q.1.0 == addr.0 - r.s_start() { (r, r.to_region_addr(addr).unwrap()) }
//@before 0 /-/
        proof { self.find_props(addr.0 as int); }
//@end
//@spec
        requires self.gm_wf(),
        ensures
            self.s_find(addr.0 as int) is None ==> r is None, // [C02]
            self.s_find(addr.0 as int) matches Some(reg) ==> r == Some((reg, MemoryRegionAddress((addr.0 - reg.s_start()) as u64))), // [C02,C03]
//@end
//@endfn

//@fn src/guest_memory.rs :: pub trait GuestMemory\b :: address_in_range :: tags=C02,C07
//@spec
        requires self.gm_wf(),
        ensures r == @mapped(self, addr.0 as int), // [C02]
//@end
//@endfn

//@fn src/guest_memory.rs :: pub trait GuestMemory\b :: check_address :: tags=C02,C07
//@sub \|_x\| addr => |_x: &Self::R| -> (q: GuestAddress) ensures q == addr { addr }
//@spec
        requires self.gm_wf(),
        ensures r == (if @mapped(self, addr.0 as int) { Some(addr) } else { None::<GuestAddress> }), // [C02]
//@end
//@endfn

//@fn src/guest_memory.rs :: pub trait GuestMemory\b :: checked_offset :: tags=C02,C07
//@sub \|addr\| self\.check_address\(addr\) => |addr: GuestAddress| -> (q: Option<GuestAddress>) requires self.gm_wf() ensures q == (if @mapped(self, addr.0 as int) { Some(addr) } else { None::<GuestAddress> }) { self.check_address(addr) }
//@spec
        requires self.gm_wf(),
        ensures r == (if base.0 + offset <= u64::MAX && @mapped(self, base.0 + offset) { Some(GuestAddress((base.0 + offset) as u64)) } else { None::<GuestAddress> }), // [C02,C07]
//@end
//@canary wrapping :: base\.checked_add\(offset as u64\) => Some(GuestAddress(base.0.wrapping_add(offset as u64)))
//@endfn

//@fn src/guest_memory.rs :: pub trait GuestMemory\b :: check_range :: tags=C02,C07
//@sub \|_, count, _, _\| -> Result<usize> \{ Ok\(count\) \} => |_o: usize, count: usize, _s: MemoryRegionAddress, _r: &Self::R| -> (q: Result<usize>) ensures q == Ok::<usize, Error>(count) { Ok(count) }
//@spec
        requires self.gm_wf(),
        ensures
            len >= 1 ==> r == @run_mapped(self, base.0 as int, base.0 + len), // [C02]
            len == 0 && @mapped(self, base.0 as int) ==> r, // [C02,C18]
//@end
//@before 0 /-/
        proof {
            assert forall|a: int| (#[trigger] self.s_find(a)) is Some implies 0 <= a < u64::MAX by { self.find_props(a); }
        }
//@end
//@canary lt :: count == len => count <= len
//@endfn

//@fn src/guest_memory.rs :: pub trait GuestMemory\b :: get_host_address :: tags=C02,C07
//@sub \|\(r, addr\)\| r\.get_host_address\(addr\) => |p: (&Self::R, MemoryRegionAddress)| -> (q: Result<Ptr>) ensures q == p.0.s_get_host_address(p.1) { let (r, addr) = p; r.get_host_address(addr) }
//@before 0 /-/
        proof { self.find_props(addr.0 as int); }
//@end
//@spec
        requires self.gm_wf(),
        ensures
            self.s_find(addr.0 as int) is None ==> r == Err::<Ptr, Error>(Error::InvalidGuestAddress(addr)), // [C02]
            self.s_find(addr.0 as int) matches Some(reg) ==> r == reg.s_get_host_address(MemoryRegionAddress((addr.0 - reg.s_start()) as u64)), // [C02]
//@end
//@endfn

//@fn src/guest_memory.rs :: pub trait GuestMemory\b :: get_slice :: tags=C02,C07
//@sub VolatileSlice<<<Self::R as GuestMemoryRegion>::B as Bitmap>::S> => VolatileSlice
//@sub \|\(r, addr\)\| r\.get_slice\(addr, count\) => |p: (&Self::R, MemoryRegionAddress)| -> (q: Result<VolatileSlice>) ensures q == p.0.s_get_slice(p.1, count) { let (r, addr) = p; r.get_slice(addr, count) }
//@before 0 /-/
        proof { self.find_props(addr.0 as int); }
//@end
//@spec
        requires self.gm_wf(),
        ensures
            self.s_find(addr.0 as int) is None ==> r == Err::<VolatileSlice, Error>(Error::InvalidGuestAddress(addr)), // [C02]
            self.s_find(addr.0 as int) matches Some(reg) ==> r == reg.s_get_slice(MemoryRegionAddress((addr.0 - reg.s_start()) as u64), count), // [C02]
//@end
//@endfn

#[verifier::loop_isolation(false)]
//@fn src/guest_memory.rs :: pub trait GuestMemory\b :: try_access :: tags=C03,C07
//@sub vmin\(cap, => vmin64(cap,
//@spec
        requires
            self.gm_wf(),
            // the callback must accept every argument tuple that satisfies good_args -- this is what
            // forces the loop to hand each chunk to the owning region at the right offset
            forall|o: usize, l: usize, s: MemoryRegionAddress, r: &Self::R|
                @good_args(self, addr.0 as int, count as int, o as int, l as int, s, r) ==> #[trigger] f.requires((o, l, s, r)),
            // ... and must never report more than it was offered (true of every callback in the crate;
            // a callback that over-reports is answered with CallbackOutOfRange or undefined chunking)
            forall|o: usize, l: usize, s: MemoryRegionAddress, r: &Self::R, ret: Result<usize>|
                #[trigger] f.ensures((o, l, s, r), ret) && ret is Ok ==> ret.unwrap() <= l,
        ensures
            // safety direction: what is reported done was a run of mapped addresses
            r matches Ok(t) ==> t <= count && @run_mapped(self, addr.0 as int, addr.0 + t), // [C03,C02]
            // exactness, for a callback that always transfers the whole chunk (buffer reads/writes)
            (forall|o: usize, l: usize, s: MemoryRegionAddress, r: &Self::R, ret: Result<usize>|
                #[trigger] f.ensures((o, l, s, r), ret) ==> ret == Ok::<usize, Error>(l))
              ==> ( (count >= 1 && !@mapped(self, addr.0 as int) ==> r == Err::<usize, Error>(Error::InvalidGuestAddress(addr)))
                 && (count >= 1 && @mapped(self, addr.0 as int) ==> (r matches Ok(t) && 1 <= t <= count
                        && @run_mapped(self, addr.0 as int, addr.0 + t)
                        && (t == count || !@mapped(self, addr.0 + t))))
                 && (count == 0 && @mapped(self, addr.0 as int) ==> r == Ok::<usize, Error>(0)) ), // [C03,C02]
//@end
//@loop 1
            invariant
                self.gm_wf(),
                f == f0,
                total <= count, count >= 1 ==> total < count,
                cur.0 == addr.0 + total,
                @run_mapped(self, addr.0 as int, addr.0 + total),
                forall|o: usize, l: usize, s: MemoryRegionAddress, r: &Self::R|
                    @good_args(self, addr.0 as int, count as int, o as int, l as int, s, r) ==> #[trigger] f.requires((o, l, s, r)),
                forall|o: usize, l: usize, s: MemoryRegionAddress, r: &Self::R, ret: Result<usize>|
                    #[trigger] f.ensures((o, l, s, r), ret) && ret is Ok ==> ret.unwrap() <= l,
                (forall|o: usize, l: usize, s: MemoryRegionAddress, r: &Self::R, ret: Result<usize>|
                    #[trigger] f.ensures((o, l, s, r), ret) ==> ret == Ok::<usize, Error>(l)) && count >= 1 && @mapped(self, addr.0 as int)
                    ==> (total >= 1 || cur.0 == addr.0),
            decreases count - total, // [C07]
//@end
//@before 1 /let start = /
            proof { self.find_props(cur.0 as int); }
//@end
//@before 0 /-/
        let ghost f0 = f;
//@end
//@endfn
}

// ------------------------------------------------------------------ impl<T: GuestMemory> Bytes<GuestAddress> for T
// (the blanket impl's methods, hosted in an extension trait so that they can carry contracts)
pub trait GuestBytes: GuestMemory {
//@fn src/guest_memory.rs :: impl<T: GuestMemory \+ \?Sized> Bytes<GuestAddress> for T :: write :: tags=C03,C07,C18
//@sub \|offset, _count, caddr, region\| -> Result<usize> \{ => |offset: usize, _count: usize, caddr: MemoryRegionAddress, region: &Self::R| -> (q: Result<usize>) requires offset <= buf@.len(), region.wf(), caddr.0 < region.s_len(), _count == (if region.s_len() - caddr.0 <= buf@.len() - offset { region.s_len() - caddr.0 } else { buf@.len() - offset }) ensures q == Ok::<usize, Error>(_count) {
//@spec
        requires self.gm_wf(),
        ensures
            buf@.len() == 0 ==> r == Ok::<usize, Error>(0), // [C18]
            buf@.len() >= 1 && !@mapped(self, addr.0 as int) ==> r == Err::<usize, Error>(Error::InvalidGuestAddress(addr)), // [C03]
            buf@.len() >= 1 && @mapped(self, addr.0 as int) ==> (r matches Ok(t) && 1 <= t <= buf@.len()
                && @run_mapped(self, addr.0 as int, addr.0 + t) && (t == buf@.len() || !@mapped(self, addr.0 + t))), // [C03]
//@end
//@canary whole_buf :: &buf\[offset\.\.\] => &buf[0..]
//@endfn

    // `read` (and read_volatile_from / write_volatile_to) pass a closure that captures `buf` (resp. the
    // stream) by mutable reference, which Verus does not support.  Their bodies are checked by Kani on
    // the real code (K-gmmock: real try_access + real blanket impl over recording mock regions,
    // bounded(3 regions), addresses and sizes unbounded); here the same contract is assumed for callers.
    fn read(&self, buf: &mut [u8], addr: GuestAddress) -> (r: Result<usize>)
        requires self.gm_wf(),
        ensures
            final(buf)@.len() == old(buf)@.len(),
            old(buf)@.len() >= 1 && !@mapped(self, addr.0 as int) ==> r == Err::<usize, Error>(Error::InvalidGuestAddress(addr)),
            old(buf)@.len() >= 1 && @mapped(self, addr.0 as int) ==> (r matches Ok(t) && 1 <= t <= old(buf)@.len()
                && @run_mapped(self, addr.0 as int, addr.0 + t) && (t == old(buf)@.len() || !@mapped(self, addr.0 + t))),
            old(buf)@.len() == 0 ==> r == Ok::<usize, Error>(0),
    ;

//@fn src/guest_memory.rs :: impl<T: GuestMemory \+ \?Sized> Bytes<GuestAddress> for T :: read_slice :: tags=C03,C07,C18
//@spec
        requires self.gm_wf(),
        ensures
            old(buf)@.len() == 0 ==> r is Ok, // [C18]
            old(buf)@.len() >= 1 ==> ((r is Ok) == @run_mapped(self, addr.0 as int, addr.0 + old(buf)@.len())), // [C03]
            old(buf)@.len() >= 1 && @mapped(self, addr.0 as int) && r is Err ==> (r matches Err(Error::PartialBuffer { expected, completed }) && expected == old(buf)@.len()
                && 1 <= completed < old(buf)@.len() && @run_mapped(self, addr.0 as int, addr.0 + completed) && !@mapped(self, addr.0 + completed)), // [C03]
//@end
//@endfn

//@fn src/guest_memory.rs :: impl<T: GuestMemory \+ \?Sized> Bytes<GuestAddress> for T :: write_slice :: tags=C03,C07,C18
//@spec
        requires self.gm_wf(),
        ensures
            buf@.len() == 0 ==> r is Ok, // [C18]
            buf@.len() >= 1 ==> ((r is Ok) == @run_mapped(self, addr.0 as int, addr.0 + buf@.len())), // [C03]
            buf@.len() >= 1 && @mapped(self, addr.0 as int) && r is Err ==> (r matches Err(Error::PartialBuffer { expected, completed }) && expected == buf@.len()
                && 1 <= completed < buf@.len() && @run_mapped(self, addr.0 as int, addr.0 + completed) && !@mapped(self, addr.0 + completed)), // [C03]
//@end
//@endfn

//@fn src/guest_memory.rs :: impl<T: GuestMemory \+ \?Sized> Bytes<GuestAddress> for T :: store :: tags=C03,C07
//@sub \|\(region, region_addr\)\| region\.store\(val, region_addr, order\) => |p: (&Self::R, MemoryRegionAddress)| -> (q: Result<()>) ensures q == p.0.s_store(val, p.1, order) { let (region, region_addr) = p; region.store(val, region_addr, order) }
//@before 0 /-/
        proof { self.find_props(addr.0 as int); }
//@end
//@spec
        requires self.gm_wf(),
        ensures
            self.s_find(addr.0 as int) is None ==> r == Err::<(), Error>(Error::InvalidGuestAddress(addr)), // [C03]
            self.s_find(addr.0 as int) matches Some(reg) ==> r == reg.s_store(val, MemoryRegionAddress((addr.0 - reg.s_start()) as u64), order), // [C03,C06]
//@end
//@endfn

//@fn src/guest_memory.rs :: impl<T: GuestMemory \+ \?Sized> Bytes<GuestAddress> for T :: load :: tags=C03,C07
//@sub \|\(region, region_addr\)\| region\.load\(region_addr, order\) => |p: (&Self::R, MemoryRegionAddress)| -> (q: Result<O>) ensures q == p.0.s_load::<O>(p.1, order) { let (region, region_addr) = p; region.load(region_addr, order) }
//@before 0 /-/
        proof { self.find_props(addr.0 as int); }
//@end
//@spec
        requires self.gm_wf(),
        ensures
            self.s_find(addr.0 as int) is None ==> r == Err::<O, Error>(Error::InvalidGuestAddress(addr)), // [C03]
            self.s_find(addr.0 as int) matches Some(reg) ==> r == reg.s_load::<O>(MemoryRegionAddress((addr.0 - reg.s_start()) as u64), order), // [C03,C06]
//@end
//@endfn
}

proof fn canary_false()
    ensures false, // [CANARY]
{}

} // verus!
fn main() {}
