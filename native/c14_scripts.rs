// Bounded stand-in for C14 (and the Vec<u8> adapter of C13): EXHAUSTIVE native enumeration of fault
// scripts against the real code.  Not a proof: Kani cannot finish these harnesses (the drop glue of
// std::io::Error recurses through `dyn Error` and explodes in CBMC) and Verus rejects the
// `loop { ..; break r }` expansion of retry_eintr!.  Bound: scripts of <= 4 entries over
// {Data(1..=8), Zero, Interrupted, Hard (ErrorKind::Other), Again (ErrorKind::WouldBlock)}, every (addr, count) in 0..=8 x 0..=9, both forms.
// The oracle and the window checks are the ones of /verif/kani/io.rs (data-free window recording)
// plus real byte movement.
use std::io::ErrorKind;
use vm_memory::bitmap::{Bitmap, BitmapSlice, WithBitmapSlice};
use std::cell::RefCell;

/// a recording dirty bitmap (public Bitmap / BitmapSlice traits): logs every (offset, len) it is told
#[derive(Debug, Clone)]
struct Rec { base: usize, log: *const RefCell<Vec<(usize, usize)>> }
impl<'a> WithBitmapSlice<'a> for Rec { type S = Rec; }
impl BitmapSlice for Rec {}
impl Bitmap for Rec {
    fn mark_dirty(&self, offset: usize, len: usize) { unsafe { (*self.log).borrow_mut().push((self.base.wrapping_add(offset), len)); } }
    fn dirty_at(&self, _offset: usize) -> bool { false }
    fn slice_at(&self, offset: usize) -> Rec { Rec { base: self.base.wrapping_add(offset), log: self.log } }
}
use vm_memory::{Bytes, ReadVolatile, VolatileMemory, VolatileMemoryError, VolatileSlice, WriteVolatile};

#[derive(Clone, Copy, Debug, PartialEq)]
enum Ent { Data(usize), Zero, Interrupted, Hard, Again }

struct Script<'a> { script: &'a [Ent], i: usize, done: usize, base: usize, addr: usize, count: usize, src: [u8; 16], sink: Vec<u8>, bad: Option<String> }
impl<'a> Script<'a> {
    fn call(&mut self, p: usize, len: usize) -> (Result<usize, VolatileMemoryError>, usize) {
        if p != self.base + self.addr + self.done { self.bad = Some(format!("window starts at +{} but {} bytes were accepted so far (addr {})", p.wrapping_sub(self.base), self.done, self.addr)); }
        if len != self.count - self.done.min(self.count) { self.bad = Some(format!("window length {} is not the rest of the request ({} of {})", len, self.done, self.count)); }
        let e = if self.i < self.script.len() { self.script[self.i] } else { Ent::Zero };
        self.i += 1;
        match e {
            Ent::Interrupted => (Err(VolatileMemoryError::IOError(std::io::Error::from(ErrorKind::Interrupted))), 0),
            Ent::Hard => (Err(VolatileMemoryError::IOError(std::io::Error::from(ErrorKind::Other))), 0),
            // a non-blocking stream that is not ready: an error like any other (only EINTR is retried)
            Ent::Again => (Err(VolatileMemoryError::IOError(std::io::Error::from(ErrorKind::WouldBlock))), 0),
            Ent::Zero => (Ok(0), 0),
            Ent::Data(k) => { let n = k.min(len); (Ok(n), n) }
        }
    }
}
impl<'a> ReadVolatile for Script<'a> {
    fn read_volatile<B: BitmapSlice>(&mut self, buf: &mut VolatileSlice<B>) -> Result<usize, VolatileMemoryError> {
        let p = buf.ptr_guard().as_ptr() as usize;
        let (r, n) = self.call(p, buf.len());
        if n > 0 { let d = self.done; buf.copy_from(&self.src[d..d + n]); self.done += n; }
        r
    }
}
impl<'a> WriteVolatile for Script<'a> {
    fn write_volatile<B: BitmapSlice>(&mut self, buf: &VolatileSlice<B>) -> Result<usize, VolatileMemoryError> {
        let p = buf.ptr_guard().as_ptr() as usize;
        let (r, n) = self.call(p, buf.len());
        if n > 0 { let mut t = vec![0u8; n]; buf.copy_to(&mut t[..]); self.sink.extend_from_slice(&t); self.done += n; }
        r
    }
}
fn oracle(script: &[Ent], count: usize, exact: bool) -> (usize, u8) {
    let mut total = 0;
    let mut i = 0;
    loop {
        if exact && total == count { return (total, 0); }
        let e = if i < script.len() { script[i] } else { Ent::Zero };
        match e {
            Ent::Interrupted => {}
            Ent::Hard => return (total, 2),
            Ent::Again => return (total, 3),
            Ent::Zero => return (total, 1),
            Ent::Data(k) => {
                let n = k.min(count - total);
                total += n;
                if !exact { return (total, 0); }
                if n == 0 { return (total, 1); }
            }
        }
        i += 1;
    }
}
fn kind_of(e: &VolatileMemoryError) -> Option<ErrorKind> { match e { VolatileMemoryError::IOError(x) => Some(x.kind()), _ => None } }

fn one(script: &[Ent], addr: usize, count: usize, exact: bool, write_dir: bool) -> Result<(), String> {
    let mut mem = [0u8; 8];
    for (i, b) in mem.iter_mut().enumerate() { *b = 0xA0 + i as u8; }
    let pre = mem;
    let base = mem.as_ptr() as usize;
    let fits = count <= 8 - addr;
    let eff = if exact || fits { count } else { 8 - addr };
    let mut src = [0u8; 16];
    for (i, b) in src.iter_mut().enumerate() { *b = 0x10 + i as u8; }
    let mut st = Script { script, i: 0, done: 0, base, addr, count: eff, src, sink: Vec::new(), bad: None };
    let (want, outcome) = oracle(script, eff, exact);
    let marks: RefCell<Vec<(usize, usize)>> = RefCell::new(Vec::new());
    // SAFETY: `mem` outlives the slice; the recording bitmap outlives it too
    let s = unsafe { VolatileSlice::with_bitmap(mem.as_mut_ptr(), 8, Rec { base: 0, log: &marks as *const _ }, None) };
    let res: Result<usize, VolatileMemoryError> = match (exact, write_dir) {
        (true, false) => s.read_exact_volatile_from(addr, &mut st, count).map(|_| count),
        (false, false) => s.read_volatile_from(addr, &mut st, count),
        (true, true) => s.write_all_volatile_to(addr, &mut st, count).map(|_| count),
        (false, true) => s.write_volatile_to(addr, &mut st, count),
    };
    if exact && !fits {
        return if res.is_err() && st.i == 0 { Ok(()) } else { Err("exact transfer that does not fit must fail without touching the stream".into()) };
    }
    if let Some(b) = st.bad.take() { return Err(b); }
    // dirty marks: exactly the bytes the stream stored (the Script streams never fail part-way through a
    // call, so nothing beyond them may be reported), and nothing at all when guest memory is only read
    {
        let mut dirty = [false; 8 + 16];
        for (o, l) in marks.borrow().iter() { for k in 0..*l { let i = o.wrapping_add(k); if i < dirty.len() { dirty[i] = true; } else { return Err(format!("[marks] dirty mark ({}, {}) outside the slice", o, l)); } } }
        for i in 0..8 {
            let stored = !write_dir && i >= addr && i < addr + st.done;
            if stored && !dirty[i] { return Err(format!("[marks-missing] byte {} was stored from the stream but is not reported dirty", i)); }
            if !stored && dirty[i] { return Err(format!("[marks-extra] byte {} is reported dirty although the transfer did not store it ({} bytes stored at {})", i, if write_dir { 0 } else { st.done }, addr)); }
        }
    }
    if st.done != want { return Err(format!("transferred {} bytes, script delivers {}", st.done, want)); }
    // memory: consumed bytes stored at consecutive addresses / drained bytes are the guest bytes, rest untouched
    let now: [u8; 8] = { let mut t = [0u8; 8]; s.copy_to(&mut t[..]); t };
    for i in 0..8 {
        let expect = if !write_dir && i >= addr && i < addr + want { src[i - addr] } else { pre[i] };
        if now[i] != expect { return Err(format!("memory byte {} is {:#x}, expected {:#x}", i, now[i], expect)); }
    }
    if write_dir { for i in 0..want { if st.sink[i] != pre[addr + i] { return Err(format!("sink byte {} is not guest byte {}", i, addr + i)); } } }
    let eof = if write_dir { ErrorKind::WriteZero } else { ErrorKind::UnexpectedEof };
    match (&res, outcome, exact) {
        (Err(e), _, _) if kind_of(e) == Some(ErrorKind::Interrupted) => Err("an interruption was reported to the caller".into()),
        (Ok(_), 0, true) => Ok(()),
        (Err(e), 1, true) if kind_of(e) == Some(eof) => Ok(()),
        (Err(e), 2, _) if kind_of(e) == Some(ErrorKind::Other) => Ok(()),
        (Err(e), 3, _) if kind_of(e) == Some(ErrorKind::WouldBlock) => Ok(()),
        (Ok(n), o, false) if o != 2 && o != 3 && *n == want => Ok(()),
        _ => Err(format!("result {:?} does not match outcome {} (want {} bytes)", res.as_ref().map_err(|e| format!("{:?}", e)), outcome, want)),
    }
}

#[test]
fn enumerate_scripts() {
    let maxk: usize = std::env::var("VERIF_SCRIPT_LEN").ok().and_then(|v| v.parse().ok()).unwrap_or(3);
    let mut alphabet = vec![Ent::Zero, Ent::Interrupted, Ent::Hard, Ent::Again];
    for k in 1..=8 { alphabet.push(Ent::Data(k)); }
    let mut cases = 0u64;
    let mut distinct = 0u64;
    let mut fails: Vec<String> = Vec::new();
    let mut script: Vec<Ent> = Vec::new();
    fn rec(script: &mut Vec<Ent>, alphabet: &[Ent], maxk: usize, cases: &mut u64, distinct: &mut u64, fails: &mut Vec<String>) {
        // run this script
        let nontrivial = script.iter().any(|e| matches!(e, Ent::Interrupted | Ent::Hard | Ent::Again)) || script.iter().filter(|e| matches!(e, Ent::Data(_))).count() >= 2;
        for addr in 0..=8usize { for count in 0..=9usize { for exact in [false, true] { for wd in [false, true] {
            *cases += 1;
            if nontrivial { *distinct += 1; }
            if let Err(m) = one(script, addr, count, exact, wd) {
                // a zero-count transfer that misbehaves is (also) C18's subject: keep one of those even when the list is full
                let z = if count == 0 { "[zero-count] " } else { "" };
                if fails.len() < 5 || (count == 0 && !fails.iter().any(|f| f.starts_with("[zero-count]"))) || (m.contains("[marks") && !fails.iter().any(|f| f.contains("[marks"))) { fails.push(format!("{}script={:?} addr={} count={} exact={} write_dir={}: {}", z, script, addr, count, exact, wd, m)); }
            }
        } } } }
        if script.len() < maxk {
            for e in alphabet { script.push(*e); rec(script, alphabet, maxk, cases, distinct, fails); script.pop(); }
        }
    }
    rec(&mut script, &alphabet, maxk, &mut cases, &mut distinct, &mut fails);
    println!("CASES {}", cases);
    println!("DISTINCT {}", distinct);
    // C13's exact variants ("succeed precisely when std's read_exact / write_all would", "move the same
    // bytes") are decided by the same enumeration
    for f in &fails {
        if !f.contains("[marks") { println!("FAIL: C14 {}", f); println!("FAIL: C13 {}", f); }
        if f.starts_with("[zero-count]") { println!("FAIL: C18 {}", f); }
        if f.contains("[marks-missing]") { println!("FAIL: C05 {}", f); }
        if f.contains("[marks-extra]") || f.contains("[marks]") { println!("FAIL: C16 {}", f); }
    }
    assert!(fails.is_empty());
}

// C13: WriteVolatile for Vec<u8> against std::io::Write for Vec<u8>, all capacities/lengths/buffers <= 8
#[test]
fn vec_writer_matches_std() {
    use std::io::Write;
    let mut cases = 0u64;
    let mut fails: Vec<String> = Vec::new();
    for cap in 0..=8usize { for pre in 0..=cap { for b1 in 0..=8usize { for b2 in 0..=8usize {
        cases += 1;
        let mut mem = [0u8; 8];
        for (i, b) in mem.iter_mut().enumerate() { *b = 0x30 + i as u8; }
        let src = mem;
        let mut v: Vec<u8> = Vec::with_capacity(cap);
        let mut t: Vec<u8> = Vec::with_capacity(cap);
        for i in 0..pre { v.push(i as u8); t.push(i as u8); }
        for bl in [b1, b2] {
            let vs = VolatileSlice::from(&mut mem[..bl]);
            let a = v.write_volatile(&vs);
            let b = t.write(&src[..bl]);
            if !(matches!((&a, &b), (Ok(x), Ok(y)) if x == y) && v == t && v.len() <= v.capacity()) && fails.len() < 5 {
                fails.push(format!("cap={} pre={} buf={}: volatile {:?} / {:?} vs std {:?} / {:?}", cap, pre, bl, a.map_err(|e| format!("{:?}", e)), v, b.map_err(|e| e.kind()), t));
            }
        }
    } } } }
    println!("CASES {}", cases);
    println!("DISTINCT {}", cases);
    // a sink that misplaces or loses bytes also breaks "what was written is what is later read back, through
    // any route" for guest-memory level transfers into a Vec (one call per region)
    for f in &fails { println!("FAIL: C13 {}", f); println!("FAIL: C03 {}", f); }
    assert!(fails.is_empty());
}
