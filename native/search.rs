// Native counterexample search, used ONLY after a Verus obligation failed (Verus gives no
// counterexample): boundary values and VERIF_SEED-seeded random draws are run against the real crate
// and checked against independent oracles (u128 arithmetic / set models).  A hit is printed as
//   FAILING-INPUT: <property> <description>
// and goes into the replay file; if nothing is found the VIOLATION line ends with no-failing-input-found.
#![allow(dead_code)]
use std::collections::BTreeSet;
use std::num::NonZeroUsize;
use std::panic::{catch_unwind, AssertUnwindSafe};
use std::sync::Arc;
use vm_memory::bitmap::{AtomicBitmap, Bitmap};
use vm_memory::{
    Address, Bytes, GuestAddress, GuestMemory, GuestMemoryMmap, GuestMemoryRegion, GuestRegionMmap, MemoryRegionAddress, MmapRegion,
    VolatileMemory, VolatileSlice,
};

struct Rng(u64);
impl Rng {
    fn next(&mut self) -> u64 { self.0 ^= self.0 << 13; self.0 ^= self.0 >> 7; self.0 ^= self.0 << 17; self.0 }
    fn pick(&mut self, v: &[u64]) -> u64 { v[(self.next() % v.len() as u64) as usize] }
}
fn seed() -> u64 { std::env::var("VERIF_SEED").ok().and_then(|s| s.parse().ok()).unwrap_or(1u64) | 0x9E3779B97F4A7C15 }
fn boundary(len: u64) -> Vec<u64> {
    let mut v = vec![0, 1, 2, 3, 4, 7, 8, 9, 15, 16, 17, len.wrapping_sub(1), len, len + 1, len + 2];
    for b in [1u64 << 31, 1 << 32, 1 << 61, 1 << 62, 1 << 63, u64::MAX / 2, u64::MAX / 4, u64::MAX / 8, u64::MAX] {
        for d in [0u64, 1, 2, 3] { v.push(b.wrapping_add(d)); v.push(b.wrapping_sub(d)); }
    }
    v.retain(|x| true);
    v.sort(); v.dedup(); v
}
fn report(p: &str, msg: String, n: &mut usize) { if *n < 40 { println!("FAILING-INPUT: {} {}", p, msg); } *n += 1; }

// ------------------------------------------------------------------------------------------------ C01 / C07 (slice level)
/// a legal foreign VolatileMemory implementor whose get_slice is "best effort": a window that runs
/// past the end is clamped instead of refused (the trait docs allow it; unsafe code must not rely on
/// get_slice(o, n).len() == n)
struct Clamp<'a>(VolatileSlice<'a, ()>);
impl VolatileMemory for Clamp<'_> {
    type B = ();
    fn len(&self) -> usize { self.0.len() }
    fn get_slice(&self, offset: usize, count: usize) -> vm_memory::volatile_memory::Result<VolatileSlice<'_, ()>> {
        let o = self.0.offset(offset)?;
        let n = count.min(o.len());
        o.subslice(0, n)
    }
}
#[test]
fn search_c01() {
    let mut found = 0usize;
    let mut rng = Rng(seed());
    const TOTAL: usize = 96; const OFF: usize = 32; const LEN: usize = 24;
    let mut buf = [0x5Au8; TOTAL];
    let base = buf.as_mut_ptr() as usize + OFF;
    let vals = boundary(LEN as u64);
    for round in 0..4000 {
        let a = rng.pick(&vals) as usize; let b = rng.pick(&vals) as usize;
        for b_ in buf.iter_mut() { *b_ = 0x5A; }
        let s = unsafe { VolatileSlice::new(buf.as_mut_ptr().add(OFF), LEN) };
        let within = |p: usize, n: usize| -> bool { p >= base && (p as u128 + n as u128) <= (base + LEN) as u128 };
        // sub-views
        let r = catch_unwind(AssertUnwindSafe(|| {
            let mut bad: Option<String> = None;
            if let Ok(x) = s.subslice(a, b) { if !within(x.ptr_guard().as_ptr() as usize, x.len()) || x.len() != b { bad = Some(format!("subslice({a},{b}) escapes its parent")); } else if (a as u128 + b as u128) > LEN as u128 { bad = Some(format!("subslice({a},{b}) granted although it does not fit")); } }
            else if (a as u128 + b as u128) <= LEN as u128 { bad = Some(format!("subslice({a},{b}) refused although it fits")); }
            if let Ok(x) = s.offset(a) { if !within(x.ptr_guard().as_ptr() as usize, x.len()) || a > LEN { bad = Some(format!("offset({a}) escapes its parent")); } }
            if let Ok((x, y)) = s.split_at(a) { if a > LEN || !within(y.ptr_guard().as_ptr() as usize, y.len()) || x.len() + y.len() != LEN { bad = Some(format!("split_at({a}) halves escape / do not add up")); } }
            macro_rules! arr { ($T:ty) => {{
                let sz = std::mem::size_of::<$T>();
                match s.get_array_ref::<$T>(a, b) {
                    Ok(x) => { if (a as u128 + b as u128 * sz as u128) > LEN as u128 || x.len() != b || !within(x.ptr_guard().as_ptr() as usize, 0) {
                        bad = Some(format!("get_array_ref::<{}>({a},{b}) granted although {} elements of {} bytes do not fit in {} bytes", stringify!($T), b, sz, LEN)); }
                        // element references: in the array for index < len, refused (panic) from len on
                        for idx in [0usize, b.saturating_sub(1), b, b.saturating_add(1)] {
                            let xr = &x;
                            match catch_unwind(AssertUnwindSafe(move || { let r = xr.ref_at(idx); r.ptr_guard().as_ptr() as usize })) {
                                Ok(p) => { if idx >= b || !within(p, sz) || p != base + a + idx * sz { bad = Some(format!("get_array_ref::<{}>({a},{b}).ref_at({idx}) handed out a reference outside the {b}-element array", stringify!($T))); } }
                                Err(_) => { if idx < b { bad = Some(format!("get_array_ref::<{}>({a},{b}).ref_at({idx}) refused an in-range index", stringify!($T))); } }
                            }
                        }
                    }
                    Err(_) => { if (a as u128 + b as u128 * sz as u128) <= LEN as u128 && b <= isize::MAX as usize { bad = Some(format!("get_array_ref::<{}>({a},{b}) refused although it fits", stringify!($T))); } }
                }
                match s.get_ref::<$T>(a) {
                    Ok(x) => { if (a as u128 + sz as u128) > LEN as u128 || !within(x.ptr_guard().as_ptr() as usize, sz) { bad = Some(format!("get_ref::<{}>({a}) escapes its parent", stringify!($T))); } }
                    Err(_) => { if (a as u128 + sz as u128) <= LEN as u128 { bad = Some(format!("get_ref::<{}>({a}) refused although it fits", stringify!($T))); } }
                }
            }}; }
            arr!(u8); arr!(u16); arr!(u32); arr!(u64); arr!(u128);
            // single-call stream forms: min(count, rest of the slice, stream) bytes, error only past the end
            {
                let data = [7u8; 64];
                let want = |avail: usize| -> usize { b.min(LEN.saturating_sub(a)).min(avail) };
                match s.read_volatile_from(a, &mut &data[..], b) {
                    Ok(n) => { if a > LEN || n != want(64) { bad = Some(format!("read_volatile_from(addr={a}, count={b}) on a {LEN}-byte slice moved {n} bytes")); } }
                    Err(_) => { if a <= LEN { bad = Some(format!("read_volatile_from(addr={a}, count={b}) refused an address inside the {LEN}-byte slice")); } }
                }
                let mut sink = [0u8; 64];
                match s.write_volatile_to(a, &mut &mut sink[..], b) {
                    Ok(n) => { if a > LEN || n != want(64) { bad = Some(format!("write_volatile_to(addr={a}, count={b}) on a {LEN}-byte slice moved {n} bytes")); } }
                    Err(_) => { if a <= LEN { bad = Some(format!("write_volatile_to(addr={a}, count={b}) refused an address inside the {LEN}-byte slice")); } }
                }
            }
            // the provided methods on a foreign implementor: refuse (error or panic), or stay inside
            macro_rules! foreign { ($T:ty) => {{
                let sz = std::mem::size_of::<$T>();
                let c = Clamp(unsafe { VolatileSlice::new(base as *mut u8, LEN) });
                if let Ok(Ok(p)) = catch_unwind(AssertUnwindSafe(|| c.get_ref::<$T>(a).map(|x| x.ptr_guard().as_ptr() as usize))) {
                    if !within(p, sz) { bad = Some(format!("get_ref::<{}>({a}) on a VolatileMemory implementor whose get_slice clamps handed out a reference outside the {LEN}-byte memory", stringify!($T))); } }
                if b < 64 { if let Ok(Ok(p)) = catch_unwind(AssertUnwindSafe(|| c.get_array_ref::<$T>(a, b).map(|x| x.ptr_guard().as_ptr() as usize))) {
                    if !within(p, sz * b) { bad = Some(format!("get_array_ref::<{}>({a},{b}) on a VolatileMemory implementor whose get_slice clamps handed out an array outside the {LEN}-byte memory", stringify!($T))); } } }
            }}; }
            foreign!(u16); foreign!(u32); foreign!(u64);
            if let Ok(Ok(p)) = catch_unwind(AssertUnwindSafe(|| Clamp(unsafe { VolatileSlice::new(base as *mut u8, LEN) }).get_atomic_ref::<std::sync::atomic::AtomicU32>(a).map(|r| r as *const _ as usize))) {
                if !within(p, 4) { bad = Some(format!("get_atomic_ref::<AtomicU32>({a}) on a clamping implementor is outside the memory")); } }
            // atomic refs: only at aligned addresses
            if let Ok(r) = s.get_atomic_ref::<std::sync::atomic::AtomicU32>(a) { let p = r as *const _ as usize; if p % 4 != 0 || !within(p, 4) { bad = Some(format!("get_atomic_ref::<AtomicU32>({a}) handed out a misaligned or out-of-parent reference (host address {p:#x})")); } }
            else if (a as u128 + 4) <= LEN as u128 && (base + a) % 4 == 0 { bad = Some(format!("get_atomic_ref::<AtomicU32>({a}) refused an aligned in-range address")); }
            if let Ok(r) = s.get_atomic_ref::<std::sync::atomic::AtomicU64>(a) { let p = r as *const _ as usize; if p % 8 != 0 || !within(p, 8) { bad = Some(format!("get_atomic_ref::<AtomicU64>({a}) handed out a misaligned or out-of-parent reference")); } }
            // a chain with an odd base
            if let Ok(o) = s.offset(1) { if let Ok(r) = o.get_atomic_ref::<std::sync::atomic::AtomicU32>(a) { let p = r as *const _ as usize; if p % 4 != 0 { bad = Some(format!("offset(1).get_atomic_ref::<AtomicU32>({a}) is misaligned")); } } }
            bad
        }));
        match r { Ok(Some(m)) => report("C01", m, &mut found), Ok(None) => {}, Err(_) => report("C07,C01", format!("panic (e.g. rustc's misaligned-pointer check, overflow) inside the slice accessors with arguments ({a},{b}) on a {LEN}-byte slice at host address {base:#x}"), &mut found) }
        // nothing outside the parent may have been written
        for (i, x) in buf.iter().enumerate() { if (i < OFF || i >= OFF + LEN) && *x != 0x5A { report("C01", format!("byte {i} outside the parent was modified (round {round})"), &mut found); break; } }
    }
    // region level: a raw host address is handed out exactly for offsets inside the region
    for (gbase, len) in [(0u64, 0x1000usize), (0x1000, 0x1000), (0x10_0000, 0x2000), (u64::MAX - 0x1fff, 0x1000)] {
        let reg = GuestRegionMmap::<()>::new(MmapRegion::new(len).unwrap(), GuestAddress(gbase)).unwrap();
        let hbase = reg.as_ptr() as usize;
        let mut offs = boundary(len as u64);
        offs.extend([gbase, gbase.wrapping_add(len as u64 - 1), gbase.wrapping_add(len as u64), gbase.wrapping_sub(1)]);
        // ... and a slice exactly for ranges inside it
        for o in boundary(len as u64) { for c in [0u64, 1, 2, len as u64 - 1, len as u64, len as u64 + 1, u64::MAX, u64::MAX - 1] {
            let fits = (o as u128 + c as u128) <= len as u128;
            match reg.get_slice(MemoryRegionAddress(o), c as usize) {
                Ok(sl) => { let p = sl.ptr_guard().as_ptr() as usize; if !fits || sl.len() != c as usize || p != hbase + o as usize { report("C01", format!("region ({len:#x} bytes).get_slice({o:#x}, {c:#x}) handed out a slice of {:#x} bytes at host offset {:#x}: not inside the mapping", sl.len(), p.wrapping_sub(hbase)), &mut found); } }
                Err(_) => { if fits { report("C01", format!("region ({len:#x} bytes).get_slice({o:#x}, {c:#x}) refused a range inside the region"), &mut found); } }
            }
        } }
        for o in offs {
            match reg.get_host_address(MemoryRegionAddress(o)) {
                Ok(p) => { if o >= len as u64 || p as usize != hbase + o as usize { report("C01", format!("region (guest base {gbase:#x}, {len:#x} bytes).get_host_address({o:#x}) handed out host address {:#x}, outside / not that byte of the mapping at {hbase:#x}", p as usize), &mut found); } }
                Err(_) => { if o < len as u64 { report("C01", format!("region (guest base {gbase:#x}, {len:#x} bytes).get_host_address({o:#x}) refused an offset inside the region"), &mut found); } }
            }
        }
    }
    println!("CASES 4000");
    assert!(found == 0);
}

// ------------------------------------------------------------------------------------------------ C02 / C03 / C07 / C18 (guest level)
fn layouts() -> Vec<Vec<(u64, usize)>> {
    vec![
        vec![(0, 0x1000)],
        vec![(0, 0x1000), (0x1000, 0x1000)],
        vec![(0x1000, 0x1000), (0x3000, 0x2000), (0x5000, 0x1000)],
        vec![(0, 0x1000), (u64::MAX - 0x2000 + 1, 0x1000)],
        vec![(0, 0x1000), (u64::MAX - 0x1000, 0x1000)],
        vec![(0x10, 1), (0x11, 1), (0x13, 5)],
    ]
}
fn model_mapped(l: &[(u64, usize)], a: u128) -> Option<(usize, u64)> {
    for (i, (s, n)) in l.iter().enumerate() { if a >= *s as u128 && a < *s as u128 + *n as u128 { return Some((i, (a - *s as u128) as u64)); } }
    None
}
#[test]
fn search_c02() {
    let mut found = 0usize;
    let mut rng = Rng(seed());
    for lay in layouts() {
        let gm = match GuestMemoryMmap::<()>::from_ranges(&lay.iter().map(|(a, n)| (GuestAddress(*a), *n)).collect::<Vec<_>>()) { Ok(g) => g, Err(_) => continue };
        let mut vals: Vec<u64> = boundary(0x1000);
        for (s, n) in &lay { for d in [0u64, 1, 2] { vals.push(s.wrapping_add(d)); vals.push(s.wrapping_sub(d)); vals.push(s.wrapping_add(*n as u64).wrapping_add(d)); vals.push(s.wrapping_add(*n as u64).wrapping_sub(d)); } }
        for _ in 0..3000 {
            let a = rng.pick(&vals); let o = rng.pick(&vals);
            let r = catch_unwind(AssertUnwindSafe(|| {
                let mut bad: Option<String> = None;
                let m = model_mapped(&lay, a as u128);
                if gm.address_in_range(GuestAddress(a)) != m.is_some() { bad = Some(format!("address_in_range({a:#x}) disagrees with the region set {lay:x?}")); }
                match (gm.to_region_addr(GuestAddress(a)), m) {
                    (Some((r, off)), Some((i, mo))) => { if r.start_addr().0 != lay[i].0 || off.0 != mo { bad = Some(format!("to_region_addr({a:#x}) resolves to the wrong region/offset")); } }
                    (None, None) => {}
                    _ => bad = Some(format!("to_region_addr({a:#x}) disagrees with the region set {lay:x?}")),
                }
                let sum = a as u128 + o as u128;
                let want = if sum <= u64::MAX as u128 && model_mapped(&lay, sum).is_some() { Some(sum as u64) } else { None };
                if gm.checked_offset(GuestAddress(a), o as usize).map(|x| x.0) != want { bad = Some(format!("checked_offset({a:#x}, {o:#x}) = {:?}, expected {:?} for regions {lay:x?}", gm.checked_offset(GuestAddress(a), o as usize), want)); }
                if o >= 1 && o <= 0x4000 {
                    let all = (0..o as u128).all(|d| model_mapped(&lay, a as u128 + d).is_some());
                    if gm.check_range(GuestAddress(a), o as usize) != all { bad = Some(format!("check_range({a:#x}, {o:#x}) = {} but all-mapped = {all} for regions {lay:x?}", !all)); }
                }
                let fits = m.map(|(i, mo)| o >= 1 && mo as u128 + o as u128 <= lay[i].1 as u128).unwrap_or(false);
                if o >= 1 && gm.get_slice(GuestAddress(a), o as usize).is_ok() != fits { bad = Some(format!("get_slice({a:#x}, {o:#x}) granted={} but contained-in-one-region={fits}", !fits)); }
                let last = lay.iter().map(|(s, n)| s + (*n as u64 - 1)).max().unwrap();
                if gm.last_addr().0 != last { bad = Some(format!("last_addr() = {:#x}, expected {last:#x}", gm.last_addr().0)); }
                bad
            }));
            match r { Ok(Some(m)) => report("C02", m, &mut found), Ok(None) => {}, Err(_) => report("C07", format!("panic in a guest address query with address {a:#x}, offset/len {o:#x}, regions {lay:x?}"), &mut found) }
        }
    }
    println!("CASES 18000");
    assert!(found == 0);
}

#[test]
fn search_c03() {
    let mut found = 0usize;
    let mut rng = Rng(seed());
    for lay in layouts() {
        if lay.iter().any(|(_, n)| *n > 0x2000) { continue; }
        let gm = match GuestMemoryMmap::<()>::from_ranges(&lay.iter().map(|(a, n)| (GuestAddress(*a), *n)).collect::<Vec<_>>()) { Ok(g) => g, Err(_) => continue };
        let mut vals: Vec<u64> = vec![];
        for (s, n) in &lay { for d in [0u64, 1, 2, 5] { vals.push(s.wrapping_add(d)); vals.push(s.wrapping_sub(d)); vals.push(s.wrapping_add(*n as u64).wrapping_add(d)); vals.push(s.wrapping_add(*n as u64).wrapping_sub(d)); } }
        for round in 0..400 {
            let a = rng.pick(&vals); let len = (rng.next() % 12) as usize;
            let data: Vec<u8> = (0..len).map(|i| (round as u8).wrapping_mul(7).wrapping_add(i as u8) | 1).collect();
            // zero the memory, write, compare every byte of every region with a flat model
            for r in gm.iter() { let z = vec![0u8; r.len() as usize]; r.write_slice(&z, MemoryRegionAddress(0)).unwrap(); }
            let run = (0..len as u128).take_while(|d| model_mapped(&lay, a as u128 + d).is_some()).count();
            let res = catch_unwind(AssertUnwindSafe(|| gm.write(&data, GuestAddress(a))));
            let res = match res { Ok(r) => r, Err(_) => { report("C07", format!("panic in write({len} bytes at {a:#x}) regions {lay:x?}"), &mut found); continue; } };
            if len == 0 { if !matches!(res, Ok(0)) { report("C18", format!("empty write at {a:#x} is {res:?}, expected Ok(0)"), &mut found); } continue; }
            match (&res, run) {
                (Ok(n), r) if *n == r && r > 0 => {}
                (Err(vm_memory::GuestMemoryError::InvalidGuestAddress(_)), 0) => {}
                _ => report("C03", format!("write({len} bytes at {a:#x}) = {res:?}, longest mapped run is {run}; regions {lay:x?}"), &mut found),
            }
            for (i, (s, n)) in lay.iter().enumerate() {
                let reg = gm.iter().nth(i).unwrap();
                let mut got = vec![0u8; *n]; reg.read_slice(&mut got, MemoryRegionAddress(0)).unwrap();
                for (k, g) in got.iter().enumerate() {
                    let ga = *s as u128 + k as u128;
                    let exp = if ga >= a as u128 && ga < a as u128 + run as u128 { data[(ga - a as u128) as usize] } else { 0 };
                    if *g != exp { report("C03", format!("after write({len} bytes at {a:#x}) guest byte {ga:#x} is {g:#x}, expected {exp:#x}; regions {lay:x?}"), &mut found); break; }
                }
            }
            // what was written is read back
            let mut back = vec![0u8; len];
            if let Ok(n) = gm.read(&mut back, GuestAddress(a)) { if n != run || back[..n] != data[..n] { report("C03", format!("read back at {a:#x} differs"), &mut found); } }
        }
    }
    println!("CASES 2400");
    assert!(found == 0);
}

// region level: all-or-error forms, zero-length accesses at any offset
#[test]
fn search_region() {
    let mut found = 0usize;
    let mut rng = Rng(seed());
    let reg = GuestRegionMmap::<()>::from_range(GuestAddress(0x1000), 0x400, None).unwrap();
    let vals = boundary(0x400);
    for _ in 0..3000 {
        let off = rng.pick(&vals); let len = (rng.next() % 9) as usize;
        let data = vec![0xABu8; len];
        let z = vec![0u8; 0x400]; reg.write_slice(&z, MemoryRegionAddress(0)).unwrap();
        let run = if off < 0x400 { len.min(0x400 - off as usize) } else { 0 };
        let r = catch_unwind(AssertUnwindSafe(|| {
            let mut bad: Option<(String, String)> = None;
            let w = reg.write(&data, MemoryRegionAddress(off));
            let ws = reg.write_slice(&data, MemoryRegionAddress(off));
            let mut rb = vec![0u8; len];
            let rd = reg.read(&mut rb, MemoryRegionAddress(off));
            let rs = reg.read_slice(&mut rb, MemoryRegionAddress(off));
            if len == 0 {
                if !matches!(w, Ok(0)) || ws.is_err() || !matches!(rd, Ok(0)) || rs.is_err() { bad = Some(("C18".into(), format!("empty region access at offset {off:#x} is write={w:?} write_slice={ws:?} read={rd:?} read_slice={rs:?}; the byte-access contract says Ok(0)/Ok(()) at any address"))); }
            } else {
                if run == 0 { if w.is_ok() || ws.is_ok() || rd.is_ok() || rs.is_ok() { bad = Some(("C03,C04".into(), format!("non-empty region access at offset {off:#x} past the end succeeded"))); } }
                else {
                    if !matches!(w, Ok(n) if n == run) || !matches!(rd, Ok(n) if n == run) { bad = Some(("C03,C04".into(), format!("region write/read of {len} bytes at {off:#x} = {w:?}/{rd:?}, expected Ok({run})"))); }
                    if (run == len) != ws.is_ok() || (run == len) != rs.is_ok() { bad = Some(("C03,C04".into(), format!("region write_slice/read_slice of {len} bytes at {off:#x} (fits={}) = {ws:?}/{rs:?}: the all-or-error forms must succeed exactly when the whole range fits", run == len))); }
                    if run < len { if !matches!(ws, Err(vm_memory::GuestMemoryError::PartialBuffer { expected, completed }) if expected == len && completed == run) { bad = Some(("C03,C04".into(), format!("region write_slice of {len} bytes at {off:#x} must report PartialBuffer{{expected: {len}, completed: {run}}}, got {ws:?}"))); } }
                }
            }
            bad
        }));
        match r { Ok(Some((p, m))) => report(&p, m, &mut found), Ok(None) => {}, Err(_) => report("C07", format!("panic in region access ({len} bytes at {off:#x})"), &mut found) }
    }
    println!("CASES 3000");
    assert!(found == 0);
}

// ------------------------------------------------------------------------------------------------ C09 / C05 / C16 / C18 (bitmap)
#[test]
fn search_c09() {
    let mut found = 0usize;
    let mut rng = Rng(seed());
    for (bytes, ps) in [(0usize, 1usize), (1, 1), (100, 128), (129, 128), (64 * 128, 128), (64 * 128 + 1, 128), (8192, 3), (1000, 4096), (130, 1), (300, 1), (64 * 5 * 16, 16)] {
        let b = AtomicBitmap::new(bytes, NonZeroUsize::new(ps).unwrap());
        let pages = (bytes + ps - 1) / ps;
        let mut model: BTreeSet<usize> = BTreeSet::new();
        let vals = boundary(bytes as u64);
        for step in 0..600 {
            // starts: boundary values or anywhere in the bitmap; lengths: empty, one byte, a few pages, MANY pages
            // (whole 64-page words lie inside the range, from aligned and unaligned first pages), boundary values
            let s = if rng.next() % 3 == 0 { (rng.next() % (bytes as u64 + ps as u64 + 1)) as usize } else { rng.pick(&vals) as usize };
            let l = match rng.next() % 5 { 0 => 0, 1 => 1, 2 => (rng.next() % (3 * ps as u64 + 2)) as usize, 3 => (rng.next() % (200 * ps as u64 + 2)) as usize, _ => rng.pick(&vals) as usize };
            let op = rng.next() % 5;
            // half of the steps start from a clean bitmap, so that a missing mark is not hidden by an older one
            if rng.next() % 2 == 0 { b.reset(); model.clear(); }
            let r = catch_unwind(AssertUnwindSafe(|| match op {
                0 | 1 => b.set_addr_range(s, l),
                2 => b.reset_addr_range(s, l),
                3 => b.set_bit(s),
                _ => b.reset_bit(s),
            }));
            if r.is_err() { report("C07", format!("panic in bitmap op {op} ({s:#x},{l:#x}) size {bytes} page {ps}"), &mut found); continue; }
            let range = |s: usize, l: usize| -> Vec<usize> { if l == 0 { vec![] } else { let lo = s / ps; let hi = (s as u128 + l as u128 - 1).min(usize::MAX as u128) as usize / ps; (lo..=hi.min(pages.saturating_sub(1).max(lo))).filter(|p| *p < pages && *p <= hi).collect() } };
            match op { 0 | 1 => { for p in range(s, l) { model.insert(p); } } 2 => { for p in range(s, l) { model.remove(&p); } } 3 => { if s < pages { model.insert(s); } } _ => { model.remove(&s); } }
            for p in 0..pages + 70 {
                if b.is_bit_set(p) != model.contains(&p) {
                    let missing = model.contains(&p); // the bitmap lacks a page the set model has
                    let pr = if op <= 1 && l == 0 { "C09,C16,C18" } else if missing { "C09,C05" } else { "C09,C16" };
                    report(pr, format!("after step {step} op {op} (start {s:#x}, len {l:#x}) on a bitmap of {bytes} bytes / page {ps}: page {p} is {} but the set model says {}", b.is_bit_set(p), model.contains(&p)), &mut found);
                    // resynchronise the model so that later steps are judged on their own
                    model = (0..pages + 70).filter(|q| b.is_bit_set(*q)).collect();
                    break;
                }
            }
            if found > 40 { break; }
        }
    }
    println!("CASES 6600");
    assert!(found == 0);
}

// ------------------------------------------------------------------------------------------------ C10 (collection)
#[test]
fn search_c10() {
    let mut found = 0usize;
    let mut rng = Rng(seed());
    let mk = |a: u64, n: usize| -> Option<Arc<GuestRegionMmap<()>>> { GuestRegionMmap::new(MmapRegion::new(n).ok()?, GuestAddress(a)).ok().map(Arc::new) };
    // end beyond the address space must be refused
    for (a, n) in [(u64::MAX - 0xfff, 0x1000usize), (u64::MAX, 1), (u64::MAX - 0xffe, 0x1000), (u64::MAX - 0x1000, 0x1000)] {
        let ok = mk(a, n).is_some();
        if ok != (a as u128 + n as u128 <= u64::MAX as u128) { report("C10", format!("GuestRegionMmap::new(base {a:#x}, size {n:#x}) accepted={ok}"), &mut found); }
        if let Ok(r) = GuestRegionMmap::<()>::from_range(GuestAddress(a), n, None) { if a as u128 + n as u128 > u64::MAX as u128 { report("C10", format!("from_range(base {a:#x}, size {n:#x}) accepted a region that wraps ({:#x})", r.start_addr().0), &mut found); } }
    }
    let starts = [0u64, 0x1000, 0x1800, 0x2000, 0x2fff, 0x3000, 0x4000, 0x10000];
    let sizes = [1usize, 0x800, 0x1000, 0x1001, 0x2000];
    for _ in 0..300 {
        let mut gm = GuestMemoryMmap::<()>::from_arc_regions(vec![mk(0x1000, 0x1000).unwrap()]).unwrap();
        let mut model: Vec<(u64, usize)> = vec![(0x1000, 0x1000)];
        for _ in 0..6 {
            let a = starts[(rng.next() % starts.len() as u64) as usize]; let n = sizes[(rng.next() % sizes.len() as u64) as usize];
            if rng.next() % 3 != 0 {
                let disjoint = model.iter().all(|(s, m)| a + n as u64 <= *s || *s + *m as u64 <= a);
                match gm.insert_region(mk(a, n).unwrap()) {
                    Ok(g2) => { if !disjoint { report("C10", format!("insert_region({a:#x},{n:#x}) into {model:x?} succeeded although it overlaps"), &mut found); } model.push((a, n)); model.sort(); gm = g2; }
                    Err(_) => { if disjoint { report("C10", format!("insert_region({a:#x},{n:#x}) into {model:x?} failed although disjoint"), &mut found); } }
                }
            } else {
                let present = model.iter().position(|x| *x == (a, n));
                match gm.remove_region(GuestAddress(a), n as u64) {
                    Ok((g2, r)) => { if present.is_none() || r.start_addr().0 != a { report("C10", format!("remove_region({a:#x},{n:#x}) from {model:x?} removed something else"), &mut found); } if let Some(i) = present { model.remove(i); } gm = g2; }
                    Err(_) => { if present.is_some() { report("C10", format!("remove_region({a:#x},{n:#x}) from {model:x?} failed"), &mut found); } }
                }
            }
            let got: Vec<(u64, usize)> = gm.iter().map(|r| (r.start_addr().0, r.len() as usize)).collect();
            if got != model { report("C10,C02", format!("map is {got:x?}, expected {model:x?} (sorted, disjoint, old set +/- one region); lookups by binary search are no longer valid"), &mut found); break; }
            for (s, n) in &model { if gm.find_region(GuestAddress(*s + *n as u64 - 1)).map(|r| r.start_addr().0) != Some(*s) { report("C02", format!("address {:#x} no longer resolves to its region in {model:x?}", s + *n as u64 - 1), &mut found); } }
        }
    }
    println!("CASES 1800");
    assert!(found == 0);
}
