// expect: E0597
use vm_memory::{VolatileMemory, VolatileSlice};
fn main() {
    let d;
    { let mut buf = [0u8; 8]; let s = VolatileSlice::from(&mut buf[..]); d = s.subslice(2, 4).unwrap().offset(1).unwrap(); }
    let _ = d.len();
}
