// expect: E0597
use vm_memory::{GuestAddress, GuestMemory, GuestMemoryMmap, VolatileMemory};
fn main() {
    let s;
    { let gm = GuestMemoryMmap::<()>::from_ranges(&[(GuestAddress(0), 4096)]).unwrap(); s = gm.get_slice(GuestAddress(16), 8).unwrap(); }
    let _ = s.len();
}
