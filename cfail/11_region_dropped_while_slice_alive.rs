// expect: E0505
use vm_memory::{MmapRegion, VolatileMemory};
fn main() {
    let r = MmapRegion::<()>::new(4096).unwrap();
    let s = r.get_slice(0, 4).unwrap();
    drop(r);
    let _ = s.len();
}
