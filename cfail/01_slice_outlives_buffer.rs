// expect: E0597
use vm_memory::{VolatileMemory, VolatileSlice};
fn main() {
    let s;
    { let mut buf = [0u8; 4]; s = VolatileSlice::from(&mut buf[..]); }
    let _ = s.len();
}
