// expect: E0597
use vm_memory::{ByteValued, VolatileMemory};
fn main() {
    let s;
    { let mut v = 5u32; s = v.as_bytes(); }
    let _ = s.len();
}
