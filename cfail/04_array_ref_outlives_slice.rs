// expect: E0597
use vm_memory::{VolatileMemory, VolatileSlice};
fn main() {
    let mut buf = [0u8; 8];
    let a;
    { let s = VolatileSlice::from(&mut buf[..]); a = s.get_array_ref::<u16>(0, 4).unwrap(); }
    let _ = a.load(0);
}
