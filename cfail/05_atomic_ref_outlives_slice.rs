// expect: E0597
use std::sync::atomic::{AtomicU32, Ordering};
use vm_memory::{VolatileMemory, VolatileSlice};
fn main() {
    let mut buf = [0u32; 2];
    let r: &AtomicU32;
    { let bytes = unsafe { std::slice::from_raw_parts_mut(buf.as_mut_ptr() as *mut u8, 8) }; let s = VolatileSlice::from(bytes); r = s.get_atomic_ref::<AtomicU32>(0).unwrap(); }
    let _ = r.load(Ordering::Relaxed);
}
