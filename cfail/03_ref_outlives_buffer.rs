// expect: E0597
use vm_memory::{VolatileMemory, VolatileSlice};
fn main() {
    let r;
    { let mut buf = [0u8; 8]; let s = VolatileSlice::from(&mut buf[..]); r = s.get_ref::<u32>(0).unwrap(); }
    let _ = r.load();
}
