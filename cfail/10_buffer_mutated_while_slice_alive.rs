// expect: E0506 E0503 E0499
use vm_memory::{VolatileMemory, VolatileSlice};
fn main() {
    let mut buf = [0u8; 4];
    let s = VolatileSlice::from(&mut buf[..]);
    buf[0] = 1;
    let _ = s.len();
}
