// expect: ok
use vm_memory::{ByteValued, GuestAddress, GuestMemory, GuestMemoryMmap, GuestMemoryRegion, MmapRegion, VolatileMemory, VolatileSlice};
fn main() {
    let mut buf = [0u8; 8];
    let s = VolatileSlice::from(&mut buf[..]);
    let d = s.subslice(2, 4).unwrap().offset(1).unwrap();
    let r = s.get_ref::<u32>(0).unwrap();
    let a = s.get_array_ref::<u16>(0, 4).unwrap();
    let t = a.to_slice();
    let _ = (d.len(), r.load(), a.load(0), t.len());
    let reg = MmapRegion::<()>::new(4096).unwrap();
    let rs = reg.get_slice(0, 4).unwrap();
    let _ = rs.len();
    let gm = GuestMemoryMmap::<()>::from_ranges(&[(GuestAddress(0), 4096)]).unwrap();
    let fr = gm.find_region(GuestAddress(0)).unwrap();
    let gs = gm.get_slice(GuestAddress(16), 8).unwrap();
    let _ = (fr.len(), gs.len());
    let mut v = 5u32;
    let _ = v.as_bytes().len();
}
