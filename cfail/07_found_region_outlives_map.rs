// expect: E0597
use vm_memory::{GuestAddress, GuestMemory, GuestMemoryMmap, GuestMemoryRegion};
fn main() {
    let r;
    { let gm = GuestMemoryMmap::<()>::from_ranges(&[(GuestAddress(0), 4096)]).unwrap(); r = gm.find_region(GuestAddress(0)).unwrap(); }
    let _ = r.len();
}
