// expect: E0597
use vm_memory::{MmapRegion, VolatileMemory};
fn main() {
    let s;
    { let r = MmapRegion::<()>::new(4096).unwrap(); s = r.get_slice(0, 4).unwrap(); }
    let _ = s.len();
}
