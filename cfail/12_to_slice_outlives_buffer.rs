// expect: E0597
use vm_memory::{VolatileMemory, VolatileSlice};
fn main() {
    let t;
    { let mut buf = [0u8; 8]; let s = VolatileSlice::from(&mut buf[..]); t = s.get_array_ref::<u8>(0, 8).unwrap().to_slice(); }
    let _ = t.len();
}
