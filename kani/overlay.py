"""Add-only overlay applied to the scratch copy of /repo before `cargo kani` (DESIGN.md 2.2)."""

# O1: (host file, module name, harness file under /verif/kani)
MODULES = [
    ('src/lib.rs', 'verif_kani_addr', 'addr.rs'),
    ('src/lib.rs', 'verif_kani_endian', 'endian.rs'),
    ('src/lib.rs', 'verif_kani_stdspec', 'stdspec.rs'),
    ('src/volatile_memory.rs', 'verif_kani_vs', 'vs.rs'),
    ('src/volatile_memory.rs', 'verif_kani_c06', 'c06.rs'),
    ('src/bitmap/backend/atomic_bitmap.rs', 'verif_kani_c08', 'c08.rs'),
    ('src/bitmap/backend/atomic_bitmap.rs', 'verif_kani_bm', 'bm.rs'),
    ('src/io.rs', 'verif_kani_io', 'io.rs'),
    ('src/guest_memory.rs', 'verif_kani_gmmock', 'gmmock.rs'),
    ('src/mmap/unix.rs', 'verif_kani_region', 'region.rs'),
    ('src/mmap/mod.rs', 'verif_kani_rb', 'rb.rs', 'not(feature = "xen")'),
    ('src/mmap/xen.rs', 'verif_kani_xenflags', 'xenflags.rs'),
]

_ADDR_CTX = [r'macro_rules!\s+impl_address_ops', r'\(\$T:ident, \$V:ty\)\s*=>', r'impl Address for \$T']
_M = '(<$V>::MAX as u128)'


def _sum(a, b):
    return '(%s as u128 + %s as u128)' % (a, b)


# O2: function contracts attached to the real functions (inside the macro that generates them)
CONTRACTS = [
    dict(file='src/address.rs', ctx=_ADDR_CTX, fn='new',
         attrs=['kani::ensures(|r: &$T| r.0 == value)']),
    dict(file='src/address.rs', ctx=_ADDR_CTX, fn='raw_value',
         attrs=['kani::ensures(|r: &$V| *r == self.0)']),
    dict(file='src/address.rs', ctx=_ADDR_CTX, fn='checked_offset_from',
         attrs=['kani::ensures(|r: &Option<$V>| match r { Some(x) => self.0 >= base.0 && (*x as u128) == (self.0 as u128) - (base.0 as u128), None => self.0 < base.0 })']),
    dict(file='src/address.rs', ctx=_ADDR_CTX, fn='checked_add',
         attrs=['kani::ensures(|r: &Option<$T>| match r { Some(x) => %s <= %s && (x.0 as u128) == %s, None => %s > %s })'
                % (_sum('self.0', 'other'), _M, _sum('self.0', 'other'), _sum('self.0', 'other'), _M)]),
    dict(file='src/address.rs', ctx=_ADDR_CTX, fn='overflowing_add',
         attrs=['kani::ensures(|r: &($T, bool)| ((r.0).0 as u128) == %s %% (%s + 1) && r.1 == (%s > %s))'
                % (_sum('self.0', 'other'), _M, _sum('self.0', 'other'), _M)]),
    dict(file='src/address.rs', ctx=_ADDR_CTX, fn='unchecked_add',
         attrs=['kani::requires(%s <= %s)' % (_sum('self.0', 'offset'), _M),
                'kani::ensures(|r: &$T| (r.0 as u128) == %s)' % _sum('self.0', 'offset')]),
    dict(file='src/address.rs', ctx=_ADDR_CTX, fn='checked_sub',
         attrs=['kani::ensures(|r: &Option<$T>| match r { Some(x) => self.0 >= other && (x.0 as u128) == (self.0 as u128) - (other as u128), None => self.0 < other })']),
    dict(file='src/address.rs', ctx=_ADDR_CTX, fn='overflowing_sub',
         attrs=['kani::ensures(|r: &($T, bool)| r.1 == (self.0 < other) && ((r.0).0 as u128) == ((self.0 as u128) + (%s + 1) - (other as u128)) %% (%s + 1))' % (_M, _M)]),
    dict(file='src/address.rs', ctx=_ADDR_CTX, fn='unchecked_sub',
         attrs=['kani::requires(self.0 >= other)',
                'kani::ensures(|r: &$T| (r.0 as u128) == (self.0 as u128) - (other as u128))']),
]

# O3: FFI redirection (Kani can neither run nor stub foreign functions)
FFI = {
    'src/mmap/unix.rs': [(r'\blibc::mmap\(', 'crate::verif_ffi::mmap('), (r'\blibc::munmap\(', 'crate::verif_ffi::munmap('),
                         (r'\blibc::sysconf\(', 'crate::verif_ffi::sysconf('),
                         (r'io::Error::last_os_error\(\)', 'crate::verif_ffi::last_os_error()')],
    'src/bitmap/backend/atomic_bitmap.rs': [(r'\blibc::sysconf\(', 'crate::verif_ffi::sysconf(')],
    # File::seek / rewind are foreign calls (lseek64): check_file_offset asks a model for the file size
    'src/mmap/mod.rs': [(r'\bfile\s*\.seek\(SeekFrom::End\(0\)\)', 'crate::verif_ffi::seek_end(&file)'),
                        (r'\bfile\.rewind\(\)', 'crate::verif_ffi::rewind(&file)')],
    'src/io.rs': [(r'\blibc::read\(', 'crate::verif_ffi::read('), (r'\blibc::write\(', 'crate::verif_ffi::write('),
                  (r'std::io::Error::last_os_error\(\)', 'crate::verif_ffi::last_os_error()'),
                  # O3b: io::Error::new(kind, "msg") boxes a String (38 GB / 10 min in CBMC, Kani cannot stub
                  # inherent methods of io::Error): the scratch copy builds the same kind without the message
                  (r'std::io::Error::new\(', 'crate::verif_ffi::io_error_new(')],
}

# O4: appended #[cfg(kani)] helper items
APPEND = {
    'src/mmap/unix.rs': '''
/// O4: a region over harness-owned memory, built without mmap (never owned, so Drop does nothing)
#[cfg(kani)]
impl<B: Bitmap> MmapRegion<B> {
    pub(crate) fn verif_from_raw(addr: *mut u8, size: usize, bitmap: B) -> Self {
        MmapRegion { addr, size, bitmap, file_offset: None, prot: 0, flags: 0, owned: false, hugetlbfs: None }
    }
}
''',
    'src/lib.rs': '''
/// O3: logging models of the libc functions the crate calls (Kani can neither execute nor stub foreign
/// functions).  Each records its arguments and returns an arbitrary result the real call could return.
#[cfg(kani)]
#[allow(dead_code, static_mut_refs)]
pub mod verif_ffi {
    pub static mut MMAP_CALLS: usize = 0;
    pub static mut MMAP_OK: usize = 0;
    pub static mut MMAP_ARGS: (usize, usize, i32, i32, i32, i64) = (0, 0, 0, 0, 0, 0);
    pub static mut MMAP_RET: usize = 0;
    pub static mut MUNMAP_CALLS: usize = 0;
    pub static mut MUNMAP_ARGS: (usize, usize) = (0, 0);
    pub static mut PAGE_SIZE: usize = 4096;
    /// mmap(2): MAP_FAILED or an arbitrary address
    pub unsafe fn mmap(addr: *mut core::ffi::c_void, len: usize, prot: i32, flags: i32, fd: i32, off: i64) -> *mut core::ffi::c_void {
        MMAP_CALLS += 1;
        MMAP_ARGS = (addr as usize, len, prot, flags, fd, off);
        let r: usize = kani::any();
        if r != usize::MAX { MMAP_OK += 1; }
        MMAP_RET = r;
        r as *mut core::ffi::c_void
    }
    pub unsafe fn munmap(addr: *mut core::ffi::c_void, len: usize) -> i32 {
        MUNMAP_CALLS += 1;
        MUNMAP_ARGS = (addr as usize, len);
        0
    }
    /// sysconf(_SC_PAGESIZE): some power-of-two page size
    pub unsafe fn sysconf(_name: i32) -> i64 {
        let k: u8 = kani::any();
        let ps: usize = if k % 3 == 0 { 4096 } else if k % 3 == 1 { 16384 } else { 65536 };
        PAGE_SIZE = ps;
        ps as i64
    }
    pub static mut SEEK_CALLS: usize = 0;
    pub static mut SEEK_AFTER_MMAP: bool = false;
    pub static mut FILE_SIZE: u64 = 0;
    /// File::seek(SeekFrom::End(0)): an arbitrary file size, or an error
    pub fn seek_end(_f: &std::fs::File) -> std::io::Result<u64> {
        unsafe {
            SEEK_CALLS += 1;
            if MMAP_CALLS > 0 { SEEK_AFTER_MMAP = true; }
            let fail: bool = kani::any();
            if fail { return Err(std::io::Error::from(std::io::ErrorKind::Other)); }
            let sz: u64 = kani::any();
            FILE_SIZE = sz;
            Ok(sz)
        }
    }
    pub fn rewind(_f: &std::fs::File) -> std::io::Result<()> {
        let fail: bool = kani::any();
        if fail { Err(std::io::Error::from(std::io::ErrorKind::Other)) } else { Ok(()) }
    }
    pub static mut READ_CALLS: usize = 0;
    pub static mut WRITE_CALLS: usize = 0;
    pub static mut LAST: (i32, usize, usize) = (0, 0, 0);
    pub static mut LAST_RET: isize = 0;
    /// read(2): returns -1, or k <= count after storing k arbitrary bytes; a failing call may have
    /// stored an arbitrary prefix too
    pub unsafe fn read(fd: i32, buf: *mut core::ffi::c_void, count: usize) -> isize {
        READ_CALLS += 1;
        LAST = (fd, buf as usize, count);
        let r: isize = kani::any();
        kani::assume(r >= -1 && r <= count as isize);
        let touched: usize = if r >= 0 { r as usize } else { kani::any() };
        kani::assume(touched <= count);
        let mut i = 0;
        while i < touched { *(buf as *mut u8).add(i) = kani::any(); i += 1; }
        LAST_RET = r;
        r
    }
    /// O3b: same ErrorKind, no heap-allocated message
    pub fn io_error_new(kind: std::io::ErrorKind, _msg: &str) -> std::io::Error { std::io::Error::from(kind) }
    /// errno lives behind a foreign function (__errno_location)
    pub fn last_os_error() -> std::io::Error { std::io::Error::from(std::io::ErrorKind::Other) }
    pub unsafe fn write(fd: i32, buf: *const core::ffi::c_void, count: usize) -> isize {
        WRITE_CALLS += 1;
        LAST = (fd, buf as usize, count);
        let r: isize = kani::any();
        kani::assume(r >= -1 && r <= count as isize);
        LAST_RET = r;
        r
    }
}
''',
}
