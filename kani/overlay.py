"""Add-only overlay applied to the scratch copy of /repo before `cargo kani` (DESIGN.md 2.2)."""

# O1: (host file, module name, harness file under /verif/kani)
MODULES = [
    ('src/lib.rs', 'verif_kani_addr', 'addr.rs'),
    ('src/lib.rs', 'verif_kani_endian', 'endian.rs'),
    ('src/volatile_memory.rs', 'verif_kani_vs', 'vs.rs'),
    ('src/volatile_memory.rs', 'verif_kani_c06', 'c06.rs'),
    ('src/bitmap/backend/atomic_bitmap.rs', 'verif_kani_c08', 'c08.rs'),
]

_ADDR_CTX = [r'macro_rules!\s+impl_address_ops', r'\(\$T:ident, \$V:ty\)\s*=>', r'impl Address for \$T']
_M = '(<$V>::MAX as u128)'


def _sum(a, b):
    return '(%s as u128 + %s as u128)' % (a, b)


# O2: function contracts attached to the real functions (inside the macro that generates them)
CONTRACTS = [
    dict(file='src/address.rs', ctx=_ADDR_CTX, fn='new',
         attrs=['kani::ensures(|r: &$T| r.0 == value)']),
    dict(file='src/address.rs', ctx=_ADDR_CTX, fn='raw_value',
         attrs=['kani::ensures(|r: &$V| *r == self.0)']),
    dict(file='src/address.rs', ctx=_ADDR_CTX, fn='checked_offset_from',
         attrs=['kani::ensures(|r: &Option<$V>| match r { Some(x) => self.0 >= base.0 && (*x as u128) == (self.0 as u128) - (base.0 as u128), None => self.0 < base.0 })']),
    dict(file='src/address.rs', ctx=_ADDR_CTX, fn='checked_add',
         attrs=['kani::ensures(|r: &Option<$T>| match r { Some(x) => %s <= %s && (x.0 as u128) == %s, None => %s > %s })'
                % (_sum('self.0', 'other'), _M, _sum('self.0', 'other'), _sum('self.0', 'other'), _M)]),
    dict(file='src/address.rs', ctx=_ADDR_CTX, fn='overflowing_add',
         attrs=['kani::ensures(|r: &($T, bool)| ((r.0).0 as u128) == %s %% (%s + 1) && r.1 == (%s > %s))'
                % (_sum('self.0', 'other'), _M, _sum('self.0', 'other'), _M)]),
    dict(file='src/address.rs', ctx=_ADDR_CTX, fn='unchecked_add',
         attrs=['kani::requires(%s <= %s)' % (_sum('self.0', 'offset'), _M),
                'kani::ensures(|r: &$T| (r.0 as u128) == %s)' % _sum('self.0', 'offset')]),
    dict(file='src/address.rs', ctx=_ADDR_CTX, fn='checked_sub',
         attrs=['kani::ensures(|r: &Option<$T>| match r { Some(x) => self.0 >= other && (x.0 as u128) == (self.0 as u128) - (other as u128), None => self.0 < other })']),
    dict(file='src/address.rs', ctx=_ADDR_CTX, fn='overflowing_sub',
         attrs=['kani::ensures(|r: &($T, bool)| r.1 == (self.0 < other) && ((r.0).0 as u128) == ((self.0 as u128) + (%s + 1) - (other as u128)) %% (%s + 1))' % (_M, _M)]),
    dict(file='src/address.rs', ctx=_ADDR_CTX, fn='unchecked_sub',
         attrs=['kani::requires(self.0 >= other)',
                'kani::ensures(|r: &$T| (r.0 as u128) == (self.0 as u128) - (other as u128))']),
]

# O3: FFI redirection (Kani can neither run nor stub foreign functions)
FFI = {}

# O4: appended #[cfg(kani)] helper items
APPEND = {}
