// K-xen (C15, Xen build): which mmap flag words a Xen region accepts.  Child module of src/mmap/xen.rs.
#![allow(dead_code, unused_imports)]
use super::*;

#[kani::proof]
pub fn xen_flag_words_accepted_are_exactly_four() {
    let w: u32 = kani::any();
    let ok = match MmapXenFlags::from_bits(w) { Some(f) => f.is_valid(), None => false };
    // UNIX (0), FOREIGN (1), GRANT (2), GRANT | NO_ADVANCE_MAP (0xA)
    assert!(ok == (w == 0x0 || w == 0x1 || w == 0x2 || w == 0xA), "C15: a Xen region must accept exactly the flag words 0x0, 0x1, 0x2 and 0xA");
    if let Some(f) = MmapXenFlags::from_bits(w) {
        if f.is_valid() {
            assert!(f.mmap_in_advance() == (w != 0xA), "C15: only a grant mapping may be mapped on demand");
            assert!((f.is_unix() as u8 + f.is_foreign() as u8 + f.is_grant() as u8) == 1, "C15: exactly one of unix / foreign / grant");
        }
    }
}

// the REAL entry point (MmapXen::new, reached from MmapRegion::from_range) over all 2^32 flag words: a
// range without a backing file never reaches the OS, so what is observed is exactly the flag validation --
// an unknown or contradictory word is refused with MmapFlags(word), a valid word gets past validation
// (and then fails for the missing file / protection, which is not a flag error).
#[kani::proof]
#[kani::unwind(4)]
pub fn xen_new_refuses_every_other_flag_word() {
    let w: u32 = kani::any();
    let size: usize = kani::any();
    let range = MmapRange::new(size, None, GuestAddress(kani::any()), w, kani::any());
    let r = MmapXen::new(&range);
    let valid = w == 0x0 || w == 0x1 || w == 0x2 || w == 0xA;
    match &r {
        Err(Error::MmapFlags(x)) => assert!(!valid && *x == w, "C15: a valid Xen flag word was refused as a flag error (or the error names another word)"),
        Err(_) => assert!(valid, "C15: an unknown or contradictory Xen flag word must be refused with MmapFlags(word) before anything else happens"),
        Ok(_) => assert!(false, "C15: a Xen region without backing file / protection cannot be built"),
    }
    std::mem::forget(r);
}
