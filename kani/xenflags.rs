// K-xen (C15, Xen build): which mmap flag words a Xen region accepts.  Child module of src/mmap/xen.rs.
#![allow(dead_code, unused_imports)]
use super::*;

#[kani::proof]
pub fn xen_flag_words_accepted_are_exactly_four() {
    let w: u32 = kani::any();
    let ok = match MmapXenFlags::from_bits(w) { Some(f) => f.is_valid(), None => false };
    // UNIX (0), FOREIGN (1), GRANT (2), GRANT | NO_ADVANCE_MAP (0xA)
    assert!(ok == (w == 0x0 || w == 0x1 || w == 0x2 || w == 0xA), "C15: a Xen region must accept exactly the flag words 0x0, 0x1, 0x2 and 0xA");
    if let Some(f) = MmapXenFlags::from_bits(w) {
        if f.is_valid() {
            assert!(f.mmap_in_advance() == (w != 0xA), "C15: only a grant mapping may be mapped on demand");
            assert!((f.is_unix() as u8 + f.is_foreign() as u8 + f.is_grant() as u8) == 1, "C15: exactly one of unix / foreign / grant");
        }
    }
}
