// K-region (C12, C15): what MmapRegionBuilder::build / build_raw ask of the OS and what Drop gives back,
// against logging models of mmap / munmap / sysconf (overlay O3).  Child module of src/mmap/unix.rs.
#![allow(dead_code, unused_imports, static_mut_refs)]
use super::*;
use crate::verif_ffi as ffi;

fn live_mappings() -> isize { unsafe { ffi::MMAP_OK as isize - ffi::MUNMAP_CALLS as isize } }

#[kani::proof]
#[kani::unwind(4)]
pub fn build_anonymous_then_drop() {
    let size: usize = kani::any();
    let prot: i32 = kani::any();
    let flags: i32 = kani::any();
    // every builder option that does not change WHAT is mapped must leave the extent alone
    let huge: u8 = kani::any();
    let mut b = MmapRegionBuilder::<()>::new(size).with_mmap_prot(prot).with_mmap_flags(flags);
    if huge == 1 { b = b.with_hugetlbfs(true); } else if huge == 2 { b = b.with_hugetlbfs(false); }
    let r = b.build();
    let calls = unsafe { ffi::MMAP_CALLS };
    kani::cover!(r.is_ok());
    kani::cover!(r.is_ok() && huge == 1);
    if flags & libc::MAP_FIXED != 0 {
        assert!(matches!(r, Err(Error::MapFixed)), "C15: MAP_FIXED must be refused");
        assert!(calls == 0, "C15: a refused request must not have mapped anything");
    } else {
        assert!(calls == 1, "C12,C15: building a region must call mmap exactly once");
        let a = unsafe { ffi::MMAP_ARGS };
        assert!(a.1 == size, "C15,C12: mmap must be asked for exactly the requested size (the region records, and Drop unmaps, `size` bytes)");
        assert!(a.0 == 0 && a.2 == prot && a.3 == flags && a.4 == -1 && a.5 == 0,
            "C15: mmap must be called with (null, size, prot, flags, -1, 0) for an anonymous region");
        let ret = unsafe { ffi::MMAP_RET };
        if ret == libc::MAP_FAILED as usize {
            assert!(matches!(r, Err(Error::Mmap(_))), "C15: a failing mmap must surface as Error::Mmap");
        } else {
            match &r {
                Ok(reg) => {
                    assert!(reg.as_ptr() as usize == ret && reg.size() == size && reg.prot() == prot && reg.flags() == flags
                        && reg.owned() && reg.file_offset().is_none(), "C15,C12: region must report exactly what was requested and own its mapping");
                }
                Err(_) => assert!(false, "C15: a request mmap accepted must yield a region"),
            }
        }
    }
    let was_ok = r.is_ok();
    drop(r);
    let (un, ua) = unsafe { (ffi::MUNMAP_CALLS, ffi::MUNMAP_ARGS) };
    if was_ok {
        assert!(un == 1 && ua.0 == unsafe { ffi::MMAP_RET } && ua.1 == size, "C12: dropping an owned region must munmap exactly (addr, size), exactly once");
        assert!(ua.1 == unsafe { ffi::MMAP_ARGS }.1, "C12: the extent unmapped must be the extent that was mapped (anything else leaks address space or unmaps foreign pages)");
    } else {
        assert!(un == 0, "C12: nothing to unmap when construction failed");
    }
    assert!(live_mappings() == 0, "C12,C15: a mapping was leaked (or unmapped twice)");
}

#[kani::proof]
#[kani::unwind(4)]
pub fn build_raw_never_maps_never_unmaps() {
    let size: usize = kani::any();
    let prot: i32 = kani::any();
    let flags: i32 = kani::any();
    let addr: usize = kani::any();
    let with_file: bool = kani::any();
    let mut b = unsafe { MmapRegionBuilder::<()>::new(size).with_mmap_prot(prot).with_mmap_flags(flags).with_raw_mmap_pointer(addr as *mut u8) };
    let r = b.build();
    let ps = unsafe { ffi::PAGE_SIZE };
    assert!(unsafe { ffi::MMAP_CALLS } == 0, "C12,C15: wrapping an external mapping must not call mmap");
    if addr % ps != 0 {
        assert!(matches!(r, Err(Error::InvalidPointer)), "C15: a raw pointer that is not page aligned must be refused");
    } else {
        match &r {
            Ok(reg) => assert!(!reg.owned() && reg.as_ptr() as usize == addr && reg.size() == size && reg.prot() == prot && reg.flags() == flags,
                "C12,C15: a region over an external mapping must not own it and must report the request"),
            Err(_) => assert!(false, "C15: a page aligned raw pointer must be accepted"),
        }
    }
    drop(r);
    assert!(unsafe { ffi::MUNMAP_CALLS } == 0, "C12: a region wrapped around an externally provided mapping must never be unmapped by the library");
}

#[kani::proof]
#[kani::unwind(4)]
pub fn convenience_constructors_pass_documented_flags() {
    let size: usize = kani::any();
    let r = MmapRegion::<()>::new(size);
    let a = unsafe { ffi::MMAP_ARGS };
    assert!(unsafe { ffi::MMAP_CALLS } == 1 && a.1 == size && a.2 == (libc::PROT_READ | libc::PROT_WRITE)
        && a.3 == (libc::MAP_ANONYMOUS | libc::MAP_NORESERVE | libc::MAP_PRIVATE) && a.4 == -1 && a.5 == 0,
        "C15: MmapRegion::new must map anonymous private read-write memory of the requested size");
    drop(r);
    assert!(live_mappings() == 0, "C12: a mapping was leaked (or unmapped twice)");
}

#[kani::proof]
#[kani::unwind(4)]
pub fn raw_with_file_offset_is_still_not_owned() {
    // two cooperating sites: build_raw decides ownership, Drop acts on it
    use std::os::fd::FromRawFd;
    let size: usize = kani::any();
    let addr: usize = kani::any();
    kani::assume(addr % 65536 == 0);
    let file = std::mem::ManuallyDrop::new(unsafe { std::fs::File::from_raw_fd(7) });
    let fo = FileOffset::from_arc(std::sync::Arc::new(unsafe { std::ptr::read(&*file) }), kani::any());
    let r = unsafe { MmapRegionBuilder::<()>::new(size).with_file_offset(fo).with_raw_mmap_pointer(addr as *mut u8) }.build();
    match r {
        Ok(reg) => {
            assert!(!reg.owned(), "C12: a region wrapped around an external mapping must not be owned, with or without a file offset");
            // run the destructor logic for the mapping only (closing the File is a foreign call)
            let reg = std::mem::ManuallyDrop::new(reg);
            if reg.owned() { unsafe { ffi::munmap(reg.as_ptr() as *mut libc::c_void, reg.size()); } }
            assert!(unsafe { ffi::MUNMAP_CALLS } == 0, "C12: external mapping unmapped by the library");
        }
        Err(_) => assert!(false, "C15: page aligned raw pointer refused"),
    }
}

// file-backed construction (two cooperating sites: check_file_offset decides, build acts): whatever the
// file size, the seek outcome and mmap's answer, a request that is refused leaves NO mapping behind, the
// range check comes before anything is mapped, and an accepted request owns exactly what was mapped.
#[kani::proof]
#[kani::unwind(4)]
pub fn build_file_backed_never_leaks() {
    use std::os::fd::FromRawFd;
    let size: usize = kani::any();
    let start: u64 = kani::any();
    let flags: i32 = kani::any();
    let file = std::mem::ManuallyDrop::new(unsafe { std::fs::File::from_raw_fd(7) });
    // a second owner keeps the File alive whatever build() drops (close(2) is a foreign call)
    let arc = std::sync::Arc::new(unsafe { std::ptr::read(&*file) });
    let keep = std::mem::ManuallyDrop::new(arc.clone());
    let fo = FileOffset::from_arc(arc, start);
    let r = MmapRegionBuilder::<()>::new(size).with_mmap_flags(flags).with_file_offset(fo).build();
    let (calls, ok, seeks, late) = unsafe { (ffi::MMAP_CALLS, ffi::MMAP_OK, ffi::SEEK_CALLS, ffi::SEEK_AFTER_MMAP) };
    kani::cover!(r.is_ok());
    kani::cover!(matches!(r, Err(Error::MappingPastEof)));
    assert!(!late, "C15,C12: the file range must be validated BEFORE anything is mapped");
    match &r {
        Ok(reg) => {
            assert!(flags & libc::MAP_FIXED == 0, "C15: MAP_FIXED must be refused");
            assert!(calls == 1 && ok == 1 && seeks == 1, "C15,C12: an accepted file-backed request is one range check and one mmap");
            let a = unsafe { ffi::MMAP_ARGS };
            assert!(a.1 == size && a.4 == 7 && a.5 as u64 == start, "C15,C12: mmap must be asked for (size, fd, offset) of the request");
            assert!((start as u128) + (size as u128) <= unsafe { ffi::FILE_SIZE } as u128, "C15: a range that extends past the end of the file was accepted");
            assert!(reg.owned() && reg.size() == size && reg.as_ptr() as usize == unsafe { ffi::MMAP_RET }, "C12: the region owns exactly the mapping it made");
        }
        Err(_) => {
            // nothing may stay mapped when construction fails: every successful mmap was given back
            assert!(ok as isize - unsafe { ffi::MUNMAP_CALLS } as isize == 0, "C12,C15: a refused file-backed request left a mapping behind (leak)");
            if (start as u128) + (size as u128) > u64::MAX as u128 { assert!(calls == 0, "C15,C12: an overflowing file range must be refused before mmap"); }
        }
    }
    // do not run the File destructor (close is a foreign call); the mapping part of Drop is K-region's other harnesses
    std::mem::forget(r);
}
