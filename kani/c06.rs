// K-c06 (C06): the sequence of primitive volatile accesses issued for every (length <= 8, source
// alignment, destination alignment) class, observed by stubbing std::ptr::read_volatile /
// write_volatile with logging versions that also perform the access.
// Contract: if len in {1,2,4,8} and both addresses are multiples of len, the log is exactly
// [(R, len, src), (W, len, dst)] -- ONE access of that width on each side.  In every class the accesses
// are aligned to their width and tile [src, src+len) / [dst, dst+len) exactly once, in ascending order.
// Loops are fully unwound (<= 8 iterations) => complete over 9 lengths x 16 x 16 alignment classes (mod 16, so that 'exactly 8-aligned' occurs).
#![allow(dead_code, unused_imports, static_mut_refs)]
use super::*;
use crate::{Bytes, VolatileMemory};
use crate::io::{ReadVolatile, WriteVolatile};

const MAXLOG: usize = 20;
#[derive(Clone, Copy, PartialEq)]
pub struct Acc { pub write: bool, pub width: usize, pub addr: usize }
static mut LOG: [Acc; MAXLOG] = [Acc { write: false, width: 0, addr: 0 }; MAXLOG];
static mut NLOG: usize = 0;

fn log_acc(write: bool, width: usize, addr: usize) {
    unsafe {
        assert!(NLOG < MAXLOG, "access log overflow");
        LOG[NLOG] = Acc { write, width, addr };
        NLOG += 1;
    }
}
pub unsafe fn stub_read_volatile<T>(src: *const T) -> T {
    log_acc(false, std::mem::size_of::<T>(), src as usize);
    std::ptr::read_unaligned(src)
}
pub unsafe fn stub_write_volatile<T>(dst: *mut T, val: T) {
    log_acc(true, std::mem::size_of::<T>(), dst as usize);
    std::ptr::write_unaligned(dst, val)
}

#[repr(C, align(16))]
pub struct A8(pub [u8; 40]);

/// the C06 contract over the recorded access sequence of one transfer of `len` bytes src -> dst
fn check_sequence(src: usize, dst: usize, len: usize) {
    let n = unsafe { NLOG };
    let mut rpos = src;
    let mut wpos = dst;
    let mut i = 0;
    while i < MAXLOG {
        if i < n {
            let a = unsafe { LOG[i] };
            assert!(a.width == 1 || a.width == 2 || a.width == 4 || a.width == 8, "C06: volatile access of an unexpected width");
            assert!(a.addr % a.width == 0, "C06,C01: volatile access not aligned to its width");
            if a.write {
                assert!(a.addr == wpos, "C06,C04: writes must tile the destination in ascending order, each byte once");
                wpos += a.width;
            } else {
                assert!(a.addr == rpos, "C06,C04: reads must tile the source in ascending order, each byte once");
                rpos += a.width;
            }
        }
        i += 1;
    }
    assert!(rpos == src + len && wpos == dst + len, "C06,C04: the accesses do not cover exactly the transferred bytes");
    if (len == 1 || len == 2 || len == 4 || len == 8) && src % len == 0 && dst % len == 0 {
        assert!(n == 2, "C06: an aligned 1/2/4/8-byte transfer must be ONE read and ONE write (torn access)");
        let (a, b) = unsafe { (LOG[0], LOG[1]) };
        assert!(!a.write && a.width == len && a.addr == src && b.write && b.width == len && b.addr == dst,
            "C06: an aligned 1/2/4/8-byte transfer must be one access of that width on each side");
    }
}

macro_rules! seq_harness {
    ($name:ident, |$s:ident, $loc:ident, $len:ident, $off:ident| $body:block, $to_guest:expr) => {
        #[kani::proof]
        #[kani::unwind(22)]
        #[kani::stub(std::ptr::read_volatile, stub_read_volatile)]
        #[kani::stub(std::ptr::write_volatile, stub_write_volatile)]
        pub fn $name() {
            let mut guest = A8([0u8; 40]);
            let mut local = A8([1u8; 40]);
            let go: usize = kani::any();
            let lo: usize = kani::any();
            let $len: usize = kani::any();
            kani::assume(go < 16 && lo < 16 && $len <= 8);
            kani::cover!($len == 8 && go == 0 && lo == 0);
            kani::cover!($len == 2 && go == 6 && lo == 2);
            kani::cover!($len == 8 && go == 8 && lo == 8);
            let gaddr = guest.0.as_ptr() as usize + go;
            let laddr = local.0.as_ptr() as usize + lo;
            {
                // the container is 16 bytes starting at guest[go..]; the access happens at offset $off inside it
                let $off: usize = 0;
                let $s = unsafe { VolatileSlice::new(guest.0.as_mut_ptr().add(go), 16) };
                let $loc: &mut [u8] = &mut local.0[lo..lo + 8];
                $body
            }
            if $to_guest { check_sequence(laddr, gaddr, $len); } else { check_sequence(gaddr, laddr, $len); }
        }
    };
}
// buffer forms
seq_harness!(seq_write, |s, loc, len, off| { let _ = s.write(&loc[..len], off); }, true);
seq_harness!(seq_read, |s, loc, len, off| { let _ = s.read(&mut loc[..len], off); }, false);
seq_harness!(seq_write_slice, |s, loc, len, off| { let _ = s.write_slice(&loc[..len], off); }, true);
seq_harness!(seq_read_slice, |s, loc, len, off| { let _ = s.read_slice(&mut loc[..len], off); }, false);
// 1-byte element copy helpers (slice and array ref)
seq_harness!(seq_copy_from_u8, |s, loc, len, off| { s.copy_from(&loc[..len]); }, true);
seq_harness!(seq_copy_to_u8, |s, loc, len, off| { let _ = s.copy_to(&mut loc[..len]); }, false);
seq_harness!(seq_array_copy_from_u8, |s, loc, len, off| { if let Ok(a) = s.get_array_ref::<u8>(0, 16) { a.copy_from(&loc[..len]); } }, true);
seq_harness!(seq_array_copy_to_u8, |s, loc, len, off| { if let Ok(a) = s.get_array_ref::<u8>(0, 16) { let _ = a.copy_to(&mut loc[..len]); } }, false);
// in-memory stream adapters
seq_harness!(seq_stream_read_from_slice, |s, loc, len, off| { let mut src: &[u8] = &loc[..len]; if let Ok(mut d) = s.subslice(0, len) { let _ = src.read_volatile(&mut d); } }, true);
seq_harness!(seq_stream_write_to_slice, |s, loc, len, off| { let mut dst: &mut [u8] = &mut loc[..len]; if let Ok(d) = s.subslice(0, len) { let _ = dst.write_volatile(&d); } }, false);

// Vec<u8> sink (heap destination: only the guest-side READS are judged; the Vec has room, so reserve() does not reallocate)
#[kani::proof]
#[kani::unwind(22)]
#[kani::stub(std::ptr::read_volatile, stub_read_volatile)]
#[kani::stub(std::ptr::write_volatile, stub_write_volatile)]
pub fn seq_stream_write_to_vec() {
    let mut guest = A8([0u8; 40]);
    let go: usize = kani::any();
    let len: usize = kani::any();
    kani::assume(go < 16 && len <= 8);
    let gaddr = guest.0.as_ptr() as usize + go;
    let mut v: Vec<u8> = Vec::with_capacity(32);
    {
        let s = unsafe { VolatileSlice::new(guest.0.as_mut_ptr().add(go), 16) };
        if let Ok(d) = s.subslice(0, len) { let _ = v.write_volatile(&d); }
    }
    // reads must tile [gaddr, gaddr+len) in ascending order with aligned accesses; ONE read when len is 1/2/4/8 and aligned
    let n = unsafe { NLOG };
    let mut rpos = gaddr;
    let mut reads = 0;
    let mut i = 0;
    while i < MAXLOG {
        if i < n {
            let a = unsafe { LOG[i] };
            if !a.write {
                assert!(a.width == 1 || a.width == 2 || a.width == 4 || a.width == 8, "C06: volatile access of an unexpected width");
                assert!(a.addr % a.width == 0 && a.addr == rpos, "C06,C04: reads of guest memory must be aligned and tile the source in ascending order");
                rpos += a.width;
                reads += 1;
            }
        }
        i += 1;
    }
    assert!(rpos == gaddr + len, "C06,C04: the reads do not cover exactly the transferred bytes");
    if (len == 1 || len == 2 || len == 4 || len == 8) && gaddr % len == 0 {
        assert!(reads == 1, "C06: an aligned 1/2/4/8-byte transfer out of guest memory into a Vec must read it with ONE access (torn read)");
    }
}

// whole-object forms: the local value is naturally aligned
macro_rules! obj_seq_harness {
    ($name:ident, $T:ty, $SZ:expr) => {
        #[kani::proof]
        #[kani::unwind(22)]
        #[kani::stub(std::ptr::read_volatile, stub_read_volatile)]
        #[kani::stub(std::ptr::write_volatile, stub_write_volatile)]
        pub fn $name() {
            let mut guest = A8([0u8; 40]);
            let go: usize = kani::any();
            let wr: bool = kani::any();
            kani::assume(go < 16);
            let gaddr = guest.0.as_ptr() as usize + go;
            let s = unsafe { VolatileSlice::new(guest.0.as_mut_ptr().add(go), 16) };
            let n0 = unsafe { NLOG };
            assert!(n0 == 0);
            if wr { let _ = s.write_obj::<$T>(kani::any(), 0); } else { let _ = s.read_obj::<$T>(0); }
            let n = unsafe { NLOG };
            if gaddr % $SZ == 0 {
                assert!(n == 2, "C06: an aligned whole-object access must be one read and one write of the object's width");
                let (a, b) = unsafe { (LOG[0], LOG[1]) };
                assert!(a.width == $SZ && b.width == $SZ && !a.write && b.write, "C06: aligned whole-object access was torn");
                assert!((if wr { b.addr } else { a.addr }) == gaddr, "C06,C04: whole-object access at the wrong guest address");
            }
        }
    };
}
obj_seq_harness!(seq_obj_u16, u16, 2);
obj_seq_harness!(seq_obj_u32, u32, 4);
obj_seq_harness!(seq_obj_u64, u64, 8);

// alignment(): largest power of two dividing the address -- complete over usize
#[kani::proof]
pub fn alignment_is_largest_power_of_two() {
    let a: usize = kani::any();
    kani::assume(a != 0);
    let r = alignment(a);
    assert!(r.is_power_of_two() && a % r == 0, "C06: alignment() must be a power of two dividing the address");
    assert!(r == 1usize << 63 || a % (r << 1) != 0, "C06: alignment() must be the LARGEST power of two dividing the address");
}
