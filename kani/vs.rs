// K-vs: every data-moving operation of a volatile container against a byte-array oracle, and
// against a recording bitmap.  Child module of volatile_memory.rs (overlay O1) so it sees private items.
//
// One operation = two harnesses, each from an ARBITRARY pre-state to the exact post-state:
//   *_mem  (symbolic memory contents, `()` bitmap)
//        C04/C03: whole memory == oracle memory (so the frame is part of it), return value == oracle
//   *_log  (recording bitmap with symbolic base offset)
//        C05: the bytes the oracle says were written are all inside a logged mark
//        C16: marks are confined to the bytes written; reads / rejected requests mark nothing
//        C18: zero-length variants mark nothing
// (C05 follows from the two together: changed bytes ⊆ written range (mem) ⊆ marks (log).)
// Built-in CBMC checks (pointer validity, bounds, overflow) are the C01/C07 oracles.
// Assertion messages start with the property ids they encode; the runner attributes failures by them.
// Splitting mem/log keeps each CBMC query around a minute; the combined form took 10+ minutes.
#![allow(dead_code, unused_imports, unused_variables)]
use super::*;
use crate::bitmap::{Bitmap, BitmapSlice, WithBitmapSlice};
use crate::{Bytes, VolatileMemory};
use std::cell::Cell;

pub const N: usize = 12; // container bytes (both sides of the 8-byte small-copy threshold)
pub const G: usize = 8; // slack inside the same object: base offsets 0..=8 give every alignment class mod 8

#[repr(C, align(8))]
pub struct Al(pub [u8; N + G]);

pub fn min(a: usize, b: usize) -> usize { if a < b { a } else { b } }

// ------------------------------------------------------------------------------- recording bitmap
pub struct Log { pub n: Cell<usize>, pub e: Cell<[(usize, usize); 2]> }
impl Log {
    pub fn new() -> Self { Log { n: Cell::new(0), e: Cell::new([(0, 0); 2]) } }
    fn push(&self, a: usize, l: usize) {
        let n = self.n.get();
        assert!(n < 2, "mark log overflow");
        let mut e = self.e.get();
        e[n] = (a, l);
        self.e.set(e);
        self.n.set(n + 1);
    }
    fn hit(&self, i: usize, x: usize) -> bool {
        let e = self.e.get();
        i < self.n.get() && e[i].1 > 0 && x.wrapping_sub(e[i].0) < e[i].1
    }
    pub fn covers(&self, x: usize) -> bool { self.hit(0, x) || self.hit(1, x) }
    fn inside(&self, i: usize, lo: usize, len: usize) -> bool {
        let e = self.e.get();
        if i < self.n.get() && e[i].1 > 0 {
            let off = e[i].0.wrapping_sub(lo);
            off <= len && e[i].1 <= len - off
        } else { true }
    }
    pub fn all_within(&self, lo: usize, len: usize) -> bool { self.inside(0, lo, len) && self.inside(1, lo, len) }
    pub fn nothing_marked(&self) -> bool {
        let e = self.e.get();
        !(0 < self.n.get() && e[0].1 > 0) && !(1 < self.n.get() && e[1].1 > 0)
    }
}
#[derive(Clone, Copy)]
pub struct RecBitmap { pub base: usize, pub log: *const Log }
impl std::fmt::Debug for RecBitmap {
    fn fmt(&self, _f: &mut std::fmt::Formatter<'_>) -> std::fmt::Result { Ok(()) }
}
impl<'a> WithBitmapSlice<'a> for RecBitmap { type S = Self; }
impl BitmapSlice for RecBitmap {}
impl Bitmap for RecBitmap {
    fn mark_dirty(&self, offset: usize, len: usize) {
        // SAFETY: the log outlives every accessor of the harness
        unsafe { (*self.log).push(self.base.wrapping_add(offset), len) }
    }
    fn dirty_at(&self, _offset: usize) -> bool { false }
    fn slice_at(&self, offset: usize) -> Self { RecBitmap { base: self.base.wrapping_add(offset), log: self.log } }
}

// ------------------------------------------------------------------------------- fixtures
/// memory fixture: container = bytes [o, o+size) of an 8-aligned array with symbolic contents
pub struct FxM { pub mem: Al, pub pre: [u8; N + G], pub o: usize, pub size: usize }
impl FxM {
    pub fn new() -> FxM {
        let mem = Al(kani::any());
        let o: usize = kani::any();
        let size: usize = kani::any();
        kani::assume(o <= G && size <= N && o + size <= N + G);
        let pre = mem.0;
        FxM { mem, pre, o, size }
    }
    pub fn slice(&mut self) -> VolatileSlice<'_, ()> {
        // SAFETY: [o, o+size) lies inside self.mem
        unsafe { VolatileSlice::new(self.mem.0.as_mut_ptr().add(self.o), self.size) }
    }
    /// bytes [at, at+n) of the container now equal src[0..n); every other byte of the object is unchanged
    pub fn wrote(&self, at: usize, n: usize, src: &[u8]) {
        let mut i = 0;
        while i < N + G {
            if i >= self.o + at && i < self.o + at + n {
                assert!(self.mem.0[i] == src[i - self.o - at], "C04,C03: written byte differs from the source byte");
            } else {
                assert!(self.mem.0[i] == self.pre[i], "C04,C03,C01,C05: a byte outside the addressed range changed");
            }
            i += 1;
        }
    }
    pub fn untouched(&self) {
        let mut i = 0;
        while i < N + G {
            assert!(self.mem.0[i] == self.pre[i], "C04,C18: memory changed by a read / rejected / empty operation");
            i += 1;
        }
    }
}
/// log fixture: same container shape, concrete contents, recording bitmap with symbolic base
pub struct FxL { pub mem: Al, pub o: usize, pub size: usize, pub base: usize, pub log: Log }
impl FxL {
    pub fn new() -> FxL {
        let o: usize = kani::any();
        let size: usize = kani::any();
        kani::assume(o <= G && size <= N && o + size <= N + G);
        FxL { mem: Al([0u8; N + G]), o, size, base: kani::any(), log: Log::new() }
    }
    pub fn slice(&mut self) -> VolatileSlice<'_, RecBitmap> {
        // SAFETY: [o, o+size) lies inside self.mem
        unsafe {
            VolatileSlice::with_bitmap(self.mem.0.as_mut_ptr().add(self.o), self.size,
                RecBitmap { base: self.base, log: &self.log as *const Log }, None)
        }
    }
    /// the marks cover exactly container bytes [at, at+n)
    pub fn marked(&self, at: usize, n: usize) {
        // coverage first: Kani's assert! also assumes its condition, so the second check only sees
        // executions that passed the first (marks that are both misplaced and missing fail both)
        if n > 0 {
            assert!(self.log.covers(self.base.wrapping_add(at)) && self.log.covers(self.base.wrapping_add(at + n - 1))
                && self.log.covers(self.base.wrapping_add(at + n / 2)), "C05: written bytes not reported dirty");
        }
        assert!(self.log.all_within(self.base.wrapping_add(at), n), "C16: dirty mark outside the bytes written");
    }
    pub fn unmarked(&self) {
        assert!(self.log.nothing_marked(), "C16,C18: a read / rejected / empty operation marked something dirty");
    }
}

// ------------------------------------------------------------------------------- Bytes<usize>: write / write_slice
macro_rules! write_harness {
    ($mem:ident, $log:ident, $method:ident, $is_slice:tt) => {
        #[kani::proof]
        #[kani::unwind(22)]
        pub fn $mem() {
            let mut fx = FxM::new();
            let buf: [u8; N + 1] = kani::any();
            let bl: usize = kani::any();
            kani::assume(bl <= N + 1);
            let addr: usize = kani::any();
            let size = fx.size;
            let r = fx.slice().$method(&buf[..bl], addr);
            kani::cover!(bl > 8 && addr < size);
            kani::cover!(bl > 0 && bl <= 8 && addr < size);
            if bl == 0 {
                assert!(r.is_ok(), "C18: empty write must succeed at any address");
                fx.untouched();
            } else if addr >= size {
                assert!(r.is_err(), "C04: non-empty write starting at or past the end must fail");
                fx.untouched();
            } else {
                let n = min(bl, size - addr);
                fx.wrote(addr, n, &buf[..bl]);
                write_harness!(@ret $is_slice, r, n, bl);
            }
        }
        #[kani::proof]
        #[kani::unwind(22)]
        pub fn $log() {
            let mut fx = FxL::new();
            let buf = [7u8; N + 1];
            let bl: usize = kani::any();
            kani::assume(bl <= N + 1);
            let addr: usize = kani::any();
            let size = fx.size;
            let _ = fx.slice().$method(&buf[..bl], addr);
            if bl == 0 || addr >= size { fx.unmarked(); } else { fx.marked(addr, min(bl, size - addr)); }
        }
    };
    (@ret false, $r:ident, $n:ident, $bl:ident) => {
        assert!(matches!($r, Ok(c) if c == $n), "C04,C03: write must report min(len, size - addr)");
    };
    (@ret true, $r:ident, $n:ident, $bl:ident) => {
        if $n == $bl { assert!($r.is_ok(), "C04,C03: write_slice of a range that fits must succeed"); }
        else {
            assert!(matches!($r, Err(Error::PartialBuffer { expected, completed }) if expected == $bl && completed == $n),
                "C04,C03: write_slice that does not fit must report PartialBuffer{expected, completed}");
        }
    };
}
write_harness!(write_mem, write_log, write, false);
write_harness!(write_slice_mem, write_slice_log, write_slice, true);

// ------------------------------------------------------------------------------- Bytes<usize>: stream forms with an in-memory stream
// read_volatile_from / read_exact_volatile_from fill the container from a &[u8]; write_volatile_to /
// write_all_volatile_to drain it into a &mut [u8]: up-to forms move min(count, rest of container, stream),
// exact forms move count or fail, an address past the end is refused, nothing else changes.
#[kani::proof]
#[kani::unwind(22)]
pub fn stream_read_from_mem() {
    use crate::Bytes;
    let mut fx = FxM::new();
    let data: [u8; N + 1] = kani::any();
    let (dl, addr, count): (usize, usize, usize) = (kani::any(), kani::any(), kani::any());
    let exact: bool = false;
    kani::assume(dl <= N + 1 && count <= N + 2);
    let size = fx.size;
    let mut src: &[u8] = &data[..dl];
    let r: Result<usize> = if exact { fx.slice().read_exact_volatile_from(addr, &mut src, count).map(|_| count) } else { fx.slice().read_volatile_from(addr, &mut src, count) };
    kani::cover!(!exact && addr > 0 && addr < size && count > size - addr && dl > size - addr);
    let rest = src.len();
    if !exact {
        if addr > size { assert!(r.is_err(), "C04,C01: a stream read starting past the end must fail"); fx.untouched(); }
        else {
            let n = min(min(count, size - addr), dl);
            assert!(matches!(r, Ok(c) if c == n), "C04,C03,C14: read_volatile_from must move min(count, rest of the container, stream) bytes and report that");
            assert!(rest == dl - n, "C13,C03: the stream must be advanced by exactly the bytes consumed");
            fx.wrote(addr, n, &data[..dl]);
        }
    } else if addr > size || count > size - addr {
        assert!(r.is_err(), "C04,C01: an exact stream read that does not fit must fail");
        assert!(rest == dl, "C14,C04: a refused exact transfer must not consume the stream");
        fx.untouched();
    } else if count <= dl {
        assert!(r.is_ok() && rest == dl - count, "C04,C14: an exact stream read that fits and is fully served must succeed");
        fx.wrote(addr, count, &data[..dl]);
    } else {
        assert!(r.is_err(), "C14: an exact stream read must fail when the stream ends early");
    }
}
#[kani::proof]
#[kani::unwind(22)]
pub fn stream_exact_read_from_mem() {
    use crate::Bytes;
    let mut fx = FxM::new();
    let data: [u8; N + 1] = kani::any();
    let (dl, addr, count): (usize, usize, usize) = (kani::any(), kani::any(), kani::any());
    let exact: bool = true;
    kani::assume(dl <= N + 1 && count <= N + 2);
    let size = fx.size;
    let mut src: &[u8] = &data[..dl];
    let r: Result<usize> = if exact { fx.slice().read_exact_volatile_from(addr, &mut src, count).map(|_| count) } else { fx.slice().read_volatile_from(addr, &mut src, count) };
    kani::cover!(addr > 0 && addr < size && count <= size - addr && count > dl);
    let rest = src.len();
    if !exact {
        if addr > size { assert!(r.is_err(), "C04,C01: a stream read starting past the end must fail"); fx.untouched(); }
        else {
            let n = min(min(count, size - addr), dl);
            assert!(matches!(r, Ok(c) if c == n), "C04,C03,C14: read_volatile_from must move min(count, rest of the container, stream) bytes and report that");
            assert!(rest == dl - n, "C13,C03: the stream must be advanced by exactly the bytes consumed");
            fx.wrote(addr, n, &data[..dl]);
        }
    } else if addr > size || count > size - addr {
        assert!(r.is_err(), "C04,C01: an exact stream read that does not fit must fail");
        assert!(rest == dl, "C14,C04: a refused exact transfer must not consume the stream");
        fx.untouched();
    } else if count <= dl {
        assert!(r.is_ok() && rest == dl - count, "C04,C14: an exact stream read that fits and is fully served must succeed");
        fx.wrote(addr, count, &data[..dl]);
    } else {
        assert!(r.is_err(), "C14: an exact stream read must fail when the stream ends early");
    }
}
#[kani::proof]
#[kani::unwind(22)]
pub fn stream_read_from_log() {
    use crate::Bytes;
    let mut fx = FxL::new();
    let data = [7u8; N + 1];
    let (dl, addr, count): (usize, usize, usize) = (kani::any(), kani::any(), kani::any());
    kani::assume(dl <= N + 1 && count <= N + 2);
    let size = fx.size;
    let mut src: &[u8] = &data[..dl];
    let _ = fx.slice().read_volatile_from(addr, &mut src, count);
    if addr > size { fx.unmarked(); }
    else { let n = min(min(count, size - addr), dl); if n == 0 { fx.unmarked(); } else { fx.marked(addr, n); } }
}
#[kani::proof]
#[kani::unwind(22)]
pub fn stream_write_to_mem() {
    use crate::Bytes;
    let mut fx = FxM::new();
    let mut sink = [0u8; N + 1];
    let (dl, addr, count): (usize, usize, usize) = (kani::any(), kani::any(), kani::any());
    let exact: bool = false;
    kani::assume(dl <= N + 1 && count <= N + 2);
    let (o, size) = (fx.o, fx.size);
    let (r, rest): (Result<usize>, usize) = {
        let mut dst: &mut [u8] = &mut sink[..dl];
        let r = if exact { fx.slice().write_all_volatile_to(addr, &mut dst, count).map(|_| count) } else { fx.slice().write_volatile_to(addr, &mut dst, count) };
        (r, dst.len())
    };
    fx.untouched();
    if !exact {
        if addr > size { assert!(r.is_err(), "C04,C01: a stream write starting past the end must fail"); }
        else {
            let n = min(min(count, size - addr), dl);
            assert!(matches!(r, Ok(c) if c == n), "C04,C03,C14: write_volatile_to must move min(count, rest of the container, sink) bytes and report that");
            assert!(rest == dl - n, "C13,C03: the sink must be advanced by exactly the bytes written");
            let mut i = 0;
            while i < N + 1 { if i < n { assert!(sink[i] == fx.pre[o + addr + i], "C04,C03: byte handed to the sink is not the guest byte at that address"); } i += 1; }
        }
    } else if addr > size || count > size - addr {
        assert!(r.is_err() && rest == dl, "C04,C14: an exact stream write that does not fit must fail without touching the sink");
    } else if count <= dl {
        assert!(r.is_ok() && rest == dl - count, "C04,C14: an exact stream write that fits must succeed");
        let mut i = 0;
        while i < N + 1 { if i < count { assert!(sink[i] == fx.pre[o + addr + i], "C04,C03: byte handed to the sink is not the guest byte at that address"); } i += 1; }
    } else {
        assert!(r.is_err(), "C14: an exact stream write must fail when the sink is full");
    }
}
#[kani::proof]
#[kani::unwind(22)]
pub fn stream_exact_write_to_mem() {
    use crate::Bytes;
    let mut fx = FxM::new();
    let mut sink = [0u8; N + 1];
    let (dl, addr, count): (usize, usize, usize) = (kani::any(), kani::any(), kani::any());
    let exact: bool = true;
    kani::assume(dl <= N + 1 && count <= N + 2);
    let (o, size) = (fx.o, fx.size);
    let (r, rest): (Result<usize>, usize) = {
        let mut dst: &mut [u8] = &mut sink[..dl];
        let r = if exact { fx.slice().write_all_volatile_to(addr, &mut dst, count).map(|_| count) } else { fx.slice().write_volatile_to(addr, &mut dst, count) };
        (r, dst.len())
    };
    fx.untouched();
    if !exact {
        if addr > size { assert!(r.is_err(), "C04,C01: a stream write starting past the end must fail"); }
        else {
            let n = min(min(count, size - addr), dl);
            assert!(matches!(r, Ok(c) if c == n), "C04,C03,C14: write_volatile_to must move min(count, rest of the container, sink) bytes and report that");
            assert!(rest == dl - n, "C13,C03: the sink must be advanced by exactly the bytes written");
            let mut i = 0;
            while i < N + 1 { if i < n { assert!(sink[i] == fx.pre[o + addr + i], "C04,C03: byte handed to the sink is not the guest byte at that address"); } i += 1; }
        }
    } else if addr > size || count > size - addr {
        assert!(r.is_err() && rest == dl, "C04,C14: an exact stream write that does not fit must fail without touching the sink");
    } else if count <= dl {
        assert!(r.is_ok() && rest == dl - count, "C04,C14: an exact stream write that fits must succeed");
        let mut i = 0;
        while i < N + 1 { if i < count { assert!(sink[i] == fx.pre[o + addr + i], "C04,C03: byte handed to the sink is not the guest byte at that address"); } i += 1; }
    } else {
        assert!(r.is_err(), "C14: an exact stream write must fail when the sink is full");
    }
}

// ------------------------------------------------------------------------------- Bytes<usize>: read / read_slice
macro_rules! read_harness {
    ($mem:ident, $log:ident, $method:ident, $is_slice:tt) => {
        #[kani::proof]
        #[kani::unwind(22)]
        pub fn $mem() {
            let mut fx = FxM::new();
            let mut buf: [u8; N + 1] = kani::any();
            let pre_buf = buf;
            let bl: usize = kani::any();
            kani::assume(bl <= N + 1);
            let addr: usize = kani::any();
            let (o, size) = (fx.o, fx.size);
            let r = fx.slice().$method(&mut buf[..bl], addr);
            fx.untouched();
            if bl == 0 {
                assert!(r.is_ok(), "C18: empty read must succeed at any address");
            } else if addr >= size {
                assert!(r.is_err(), "C04: non-empty read starting at or past the end must fail");
            } else {
                let n = min(bl, size - addr);
                read_harness!(@ret $is_slice, r, n, bl);
                let mut i = 0;
                while i < N + 1 {
                    if i < n { assert!(buf[i] == fx.pre[o + addr + i], "C04,C03: read byte differs from memory"); }
                    else { assert!(buf[i] == pre_buf[i], "C04: buffer changed beyond the bytes read"); }
                    i += 1;
                }
            }
        }
        #[kani::proof]
        #[kani::unwind(22)]
        pub fn $log() {
            let mut fx = FxL::new();
            let mut buf = [7u8; N + 1];
            let bl: usize = kani::any();
            kani::assume(bl <= N + 1);
            let addr: usize = kani::any();
            let _ = fx.slice().$method(&mut buf[..bl], addr);
            fx.unmarked();
        }
    };
    (@ret false, $r:ident, $n:ident, $bl:ident) => {
        assert!(matches!($r, Ok(c) if c == $n), "C04,C03: read must report min(len, size - addr)");
    };
    (@ret true, $r:ident, $n:ident, $bl:ident) => {
        if $n == $bl { assert!($r.is_ok(), "C04,C03: read_slice of a range that fits must succeed"); }
        else {
            assert!(matches!($r, Err(Error::PartialBuffer { expected, completed }) if expected == $bl && completed == $n),
                "C04,C03: read_slice that does not fit must report PartialBuffer{expected, completed}");
        }
    };
}
read_harness!(read_mem, read_log, read, false);
read_harness!(read_slice_mem, read_slice_log, read_slice, true);

// ------------------------------------------------------------------------------- objects and typed references
macro_rules! obj_harness {
    ($mem:ident, $log:ident, $T:ty, $SZ:expr, $mk:expr) => {
        #[kani::proof]
        #[kani::unwind(22)]
        pub fn $mem() {
            let mut fx = FxM::new();
            let v: $T = $mk;
            let addr: usize = kani::any();
            let size = fx.size;
            let bytes: [u8; $SZ] = unsafe { std::mem::transmute(v) };
            let w = fx.slice().write_obj(v, addr);
            if addr < size && $SZ <= size - addr {
                assert!(w.is_ok(), "C04: write_obj that fits must succeed");
                fx.wrote(addr, $SZ, &bytes);
                // what was written is what is read back, through two other routes
                match fx.slice().read_obj::<$T>(addr) {
                    Ok(back) => { let bb: [u8; $SZ] = unsafe { std::mem::transmute(back) }; assert!(bb == bytes, "C04,C03: read_obj does not return what write_obj stored"); }
                    Err(_) => assert!(false, "C04: read_obj that fits must succeed"),
                }
                let s2 = fx.slice();
                match s2.get_ref::<$T>(addr) {
                    Ok(r) => { let lb: [u8; $SZ] = unsafe { std::mem::transmute(r.load()) }; assert!(lb == bytes, "C04: VolatileRef::load disagrees with write_obj"); }
                    Err(_) => assert!(false, "C01,C04: get_ref that fits must succeed"),
                };
            } else {
                assert!(w.is_err(), "C04: write_obj that does not fit must fail");
                // the all-or-error forms report an error but may have stored the leading bytes that fit
                if addr < size { fx.wrote(addr, size - addr, &bytes); } else { fx.untouched(); }
                assert!(fx.slice().read_obj::<$T>(addr).is_err(), "C04: read_obj that does not fit must fail");
                assert!(fx.slice().get_ref::<$T>(addr).is_err(), "C01: get_ref that does not fit must fail");
            }
        }
        #[kani::proof]
        #[kani::unwind(22)]
        pub fn $log() {
            let mut fx = FxL::new();
            let v: $T = $mk;
            let addr: usize = kani::any();
            let via_ref: bool = kani::any();
            let size = fx.size;
            let fits = addr < size && $SZ <= size - addr;
            {
                let s = fx.slice();
                if via_ref {
                    // derivation chain offset -> get_ref -> store: the bitmap must follow the address
                    if let Ok(so) = s.offset(min(addr, size)) {
                        if let Ok(r) = so.get_ref::<$T>(addr - min(addr, size)) {
                            assert!(fits, "C01: typed reference handed out although it does not fit");
                            assert!(r.ptr_guard().len() == $SZ && r.ptr_guard_mut().len() == $SZ, "C17: guard of a typed reference must span size_of::<T>() bytes");
                            r.store(v);
                        }
                    }
                } else {
                    let _ = s.write_obj(v, addr);
                }
                let _ = s.read_obj::<$T>(addr);
            }
            if fits { fx.marked(addr, $SZ); } else if !via_ref && addr < size { fx.marked(addr, size - addr); } else { fx.unmarked(); }
        }
    };
}
obj_harness!(obj_u8_mem, obj_u8_log, u8, 1, kani::any());
obj_harness!(obj_u16_mem, obj_u16_log, u16, 2, kani::any());
obj_harness!(obj_u32_mem, obj_u32_log, u32, 4, kani::any());
obj_harness!(obj_u64_mem, obj_u64_log, u64, 8, kani::any());
obj_harness!(obj_arr3_mem, obj_arr3_log, [u8; 3], 3, kani::any());
obj_harness!(obj_le32_mem, obj_le32_log, crate::Le32, 4, crate::Le32::from(kani::any::<u32>()));
obj_harness!(obj_be64_mem, obj_be64_log, crate::Be64, 8, crate::Be64::from(kani::any::<u64>()));

// ------------------------------------------------------------------------------- atomics
macro_rules! atomic_harness {
    ($mem:ident, $log:ident, $T:ty, $SZ:expr) => {
        #[kani::proof]
        #[kani::unwind(22)]
        pub fn $mem() {
            let mut fx = FxM::new();
            let v: $T = kani::any();
            let addr: usize = kani::any();
            let (o, size) = (fx.o, fx.size);
            let host = fx.mem.0.as_ptr() as usize + o;
            let bytes = v.to_ne_bytes();
            let r = fx.slice().store(v, addr, Ordering::SeqCst);
            let fits = addr < size && $SZ <= size - addr;
            let aligned = fits && (host + addr) % $SZ == 0;
            kani::cover!(aligned);
            kani::cover!((fits && !aligned) || $SZ == 1);
            if aligned {
                assert!(r.is_ok(), "C04,C06: aligned in-range atomic store must succeed");
                fx.wrote(addr, $SZ, &bytes);
                assert!(matches!(fx.slice().load::<$T>(addr, Ordering::SeqCst), Ok(l) if l == v), "C04: atomic load does not return the stored value");
            } else {
                assert!(r.is_err(), "C01,C06: misaligned or out-of-range atomic store must be refused");
                fx.untouched();
                assert!(fx.slice().load::<$T>(addr, Ordering::SeqCst).is_err(), "C01,C06: misaligned or out-of-range atomic load must be refused");
            }
        }
        #[kani::proof]
        #[kani::unwind(22)]
        pub fn $log() {
            let mut fx = FxL::new();
            let addr: usize = kani::any();
            let addr2: usize = kani::any();
            let do_store: bool = kani::any();
            // an atomic LOAD (anywhere, with or without a store elsewhere) reports nothing
            let stored = if do_store { fx.slice().store(1 as $T, addr, Ordering::SeqCst).is_ok() } else { false };
            let _ = fx.slice().load::<$T>(addr2, Ordering::SeqCst);
            if stored { fx.marked(addr, $SZ); } else { fx.unmarked(); }
        }
    };
}
atomic_harness!(atomic_u8_mem, atomic_u8_log, u8, 1);
atomic_harness!(atomic_u16_mem, atomic_u16_log, u16, 2);
atomic_harness!(atomic_u32_mem, atomic_u32_log, u32, 4);
atomic_harness!(atomic_u64_mem, atomic_u64_log, u64, 8);

// ------------------------------------------------------------------------------- element copies and element arrays
macro_rules! copy_harness {
    ($from_mem:ident, $from_log:ident, $to_mem:ident, $arr_mem:ident, $arr_log:ident, $T:ty, $SZ:expr, $BL:expr) => {
        #[kani::proof]
        #[kani::unwind(22)]
        pub fn $from_mem() {
            let mut fx = FxM::new();
            let buf: [$T; $BL] = kani::any();
            let bl: usize = kani::any();
            let via_array: bool = kani::any();
            kani::assume(bl <= $BL);
            let size = fx.size;
            {
                let s = fx.slice();
                if via_array {
                    match s.get_array_ref::<$T>(0, size / $SZ) { Ok(a) => a.copy_from(&buf[..bl]), Err(_) => assert!(false, "C01,C04: element array that fits was refused") }
                } else {
                    s.copy_from(&buf[..bl]);
                }
            }
            let n = min(bl, size / $SZ);
            let bytes: [u8; $BL * $SZ] = unsafe { std::mem::transmute(buf) };
            kani::cover!(n > 0 && n < bl);
            kani::cover!(n == bl && bl * $SZ < size);
            fx.wrote(0, n * $SZ, &bytes);
        }
        #[kani::proof]
        #[kani::unwind(22)]
        pub fn $from_log() {
            let mut fx = FxL::new();
            let buf: [$T; $BL] = [1 as $T; $BL];
            let bl: usize = kani::any();
            let via_array: bool = kani::any();
            kani::assume(bl <= $BL);
            let size = fx.size;
            {
                let s = fx.slice();
                if via_array {
                    if let Ok(a) = s.get_array_ref::<$T>(0, size / $SZ) { a.copy_from(&buf[..bl]); }
                } else {
                    s.copy_from(&buf[..bl]);
                }
            }
            let n = min(bl, size / $SZ);
            if n == 0 { fx.unmarked(); } else { fx.marked(0, n * $SZ); }
        }
        #[kani::proof]
        #[kani::unwind(22)]
        pub fn $to_mem() {
            let mut fx = FxM::new();
            let mut buf: [$T; $BL] = kani::any();
            let pre_buf: [u8; $BL * $SZ] = unsafe { std::mem::transmute(buf) };
            let bl: usize = kani::any();
            let via_array: bool = kani::any();
            kani::assume(bl <= $BL);
            let (o, size) = (fx.o, fx.size);
            let r = {
                let s = fx.slice();
                if via_array {
                    match s.get_array_ref::<$T>(0, size / $SZ) { Ok(a) => a.copy_to(&mut buf[..bl]), Err(_) => { assert!(false, "C01,C04: element array that fits was refused"); 0 } }
                } else {
                    s.copy_to(&mut buf[..bl])
                }
            };
            let n = min(bl, size / $SZ);
            assert!(r == n, "C04: copy_to must report the number of elements transferred, cut off at the end of the container");
            fx.untouched();
            let post: [u8; $BL * $SZ] = unsafe { std::mem::transmute(buf) };
            let mut i = 0;
            while i < $BL * $SZ {
                if i < n * $SZ { assert!(post[i] == fx.pre[o + i], "C04: copy_to byte differs from memory"); }
                else { assert!(post[i] == pre_buf[i], "C04: copy_to changed the buffer beyond the elements transferred"); }
                i += 1;
            }
        }
        #[kani::proof]
        #[kani::unwind(22)]
        pub fn $arr_mem() {
            let mut fx = FxM::new();
            let (off, cnt, idx): (usize, usize, usize) = (kani::any(), kani::any(), kani::any());
            let v: $T = kani::any();
            let size = fx.size;
            let fits = off <= size && cnt <= (size - off) / $SZ;
            let bytes: [u8; $SZ] = unsafe { std::mem::transmute(v) };
            let mut stored = false;
            {
                let s = fx.slice();
                match s.get_array_ref::<$T>(off, cnt) {
                    Ok(a) => {
                        assert!(fits, "C01: element array handed out although it does not fit");
                        assert!(a.len() == cnt, "C04: element array has the wrong length");
                        if idx < cnt {
                            a.store(idx, v);
                            stored = true;
                            let l: [u8; $SZ] = unsafe { std::mem::transmute(a.load(idx)) };
                            assert!(l == bytes, "C04: array load does not return the stored element");
                        }
                    }
                    Err(_) => assert!(!fits, "C01,C04: element array that fits was refused"),
                }
            }
            if stored { fx.wrote(off + idx * $SZ, $SZ, &bytes); } else { fx.untouched(); }
        }
        #[kani::proof]
        #[kani::unwind(22)]
        pub fn $arr_log() {
            let mut fx = FxL::new();
            let (off, cnt, idx): (usize, usize, usize) = (kani::any(), kani::any(), kani::any());
            let mut stored = false;
            {
                let s = fx.slice();
                if let Ok(a) = s.get_array_ref::<$T>(off, cnt) {
                    assert!(a.ptr_guard().len() == cnt * $SZ && a.ptr_guard_mut().len() == cnt * $SZ, "C17: array guard must span len * size_of::<T>() bytes");
                    assert!(a.to_slice().len() == cnt * $SZ, "C01: to_slice of an element array has the wrong length");
                    if idx < cnt { a.ref_at(idx).store(1 as $T); stored = true; let _ = a.load(idx); }
                }
            }
            if stored { fx.marked(off + idx * $SZ, $SZ); } else { fx.unmarked(); }
        }
    };
}
copy_harness!(copy_from_u8_mem, copy_from_u8_log, copy_to_u8_mem, array_u8_mem, array_u8_log, u8, 1, 13);
copy_harness!(copy_from_u16_mem, copy_from_u16_log, copy_to_u16_mem, array_u16_mem, array_u16_log, u16, 2, 7);
copy_harness!(copy_from_u32_mem, copy_from_u32_log, copy_to_u32_mem, array_u32_mem, array_u32_log, u32, 4, 4);
copy_harness!(copy_from_u64_mem, copy_from_u64_log, copy_to_u64_mem, array_u64_mem, array_u64_log, u64, 8, 2);

// ------------------------------------------------------------------------------- slice-to-slice copies, incl. overlapping windows
#[kani::proof]
#[kani::unwind(22)]
pub fn copy_to_volatile_slice_mem() {
    let mut fx = FxM::new();
    let (a, al, b, bl): (usize, usize, usize, usize) = (kani::any(), kani::any(), kani::any(), kani::any());
    let via_array: bool = kani::any();
    let (o, size) = (fx.o, fx.size);
    kani::assume(a <= size && al <= size - a && b <= size && bl <= size - b);
    {
        let s = fx.slice();
        if let (Ok(src), Ok(dst)) = (s.subslice(a, al), s.subslice(b, bl)) {
            if via_array { VolatileArrayRef::<u8, ()>::from(src).copy_to_volatile_slice(dst); } else { src.copy_to_volatile_slice(dst); }
        } else { assert!(false, "C01,C04: subslice that fits was refused"); }
    }
    let n = min(al, bl);
    kani::cover!(n > 1 && b > a && b < a + n);
    let mut srcb = [0u8; N];
    let mut i = 0;
    while i < N { if i < n { srcb[i] = fx.pre[o + a + i]; } i += 1; }
    fx.wrote(b, n, &srcb);
}
#[kani::proof]
#[kani::unwind(22)]
pub fn copy_to_volatile_slice_log() {
    let mut fx = FxL::new();
    let (a, al, b, bl): (usize, usize, usize, usize) = (kani::any(), kani::any(), kani::any(), kani::any());
    let via_array: bool = kani::any();
    let size = fx.size;
    kani::assume(a <= size && al <= size - a && b <= size && bl <= size - b);
    {
        let s = fx.slice();
        if let (Ok(src), Ok(dst)) = (s.subslice(a, al), s.subslice(b, bl)) {
            if via_array { VolatileArrayRef::<u8, RecBitmap>::from(src).copy_to_volatile_slice(dst); } else { src.copy_to_volatile_slice(dst); }
        }
    }
    let n = min(al, bl);
    if n == 0 { fx.unmarked(); } else { fx.marked(b, n); }
}

// the same through an array of WIDER elements: the copy is bounded by the array's size in BYTES (not elements)
#[kani::proof]
#[kani::unwind(22)]
pub fn wide_array_copy_to_volatile_slice_mem() {
    let mut fx = FxM::new();
    let (a, ne, b, bl): (usize, usize, usize, usize) = (kani::any(), kani::any(), kani::any(), kani::any());
    let (o, size) = (fx.o, fx.size);
    kani::assume(a <= size && ne <= (size - a) / 2 && b <= size && bl <= size - b);
    {
        let s = fx.slice();
        if let (Ok(src), Ok(dst)) = (s.get_array_ref::<u16>(a, ne), s.subslice(b, bl)) {
            src.copy_to_volatile_slice(dst);
        } else { assert!(false, "C01,C04: array / subslice that fits was refused"); }
    }
    let n = min(ne * 2, bl);
    kani::cover!(ne == 3 && bl == 6);
    let mut srcb = [0u8; N];
    let mut i = 0;
    while i < N { if i < n { srcb[i] = fx.pre[o + a + i]; } i += 1; }
    fx.wrote(b, n, &srcb);
}
#[kani::proof]
#[kani::unwind(22)]
pub fn wide_array_copy_to_volatile_slice_log() {
    let mut fx = FxL::new();
    let (a, ne, b, bl): (usize, usize, usize, usize) = (kani::any(), kani::any(), kani::any(), kani::any());
    let size = fx.size;
    kani::assume(a <= size && ne <= (size - a) / 2 && b <= size && bl <= size - b);
    {
        let s = fx.slice();
        if let (Ok(src), Ok(dst)) = (s.get_array_ref::<u16>(a, ne), s.subslice(b, bl)) {
            src.copy_to_volatile_slice(dst);
        }
    }
    let n = min(ne * 2, bl);
    if n == 0 { fx.unmarked(); } else { fx.marked(b, n); }
}

// ------------------------------------------------------------------------------- derivation chains keep address and bitmap in step
#[kani::proof]
#[kani::unwind(22)]
pub fn derivation_chain_mem() {
    let mut fx = FxM::new();
    let (x, y, z, c): (usize, usize, usize, usize) = (kani::any(), kani::any(), kani::any(), kani::any());
    let size = fx.size;
    let v: u8 = kani::any();
    kani::assume(x <= size && y <= size - x && z < size - x - y && c >= 1 && c <= size - x - y - z);
    {
        let s = fx.slice();
        if let Ok((_, d1)) = s.split_at(x) { if let Ok(d2) = d1.offset(y) { if let Ok(d) = d2.subslice(z, c) {
            assert!(d.len() == c, "C01: derived slice has the wrong length");
            assert!(d.ptr_guard().as_ptr() as usize == s.ptr_guard().as_ptr() as usize + x + y + z && d.ptr_guard().len() == c, "C01,C17: derived slice / guard designates the wrong bytes");
            let _ = d.write_obj(v, 0);
        } else { assert!(false, "C01: subslice that fits was refused"); } } else { assert!(false, "C01: offset that fits was refused"); } } else { assert!(false, "C01: split_at that fits was refused"); }
    }
    fx.wrote(x + y + z, 1, &[v]);
}
#[kani::proof]
#[kani::unwind(22)]
pub fn derivation_chain_log() {
    let mut fx = FxL::new();
    let (x, y, z, c): (usize, usize, usize, usize) = (kani::any(), kani::any(), kani::any(), kani::any());
    let size = fx.size;
    kani::assume(x <= size && y <= size - x && z < size - x - y && c >= 1 && c <= size - x - y - z);
    {
        let s = fx.slice();
        if let Ok((_, d1)) = s.split_at(x) { if let Ok(d2) = d1.offset(y) { if let Ok(d) = d2.subslice(z, c) {
            if let Ok(a) = d.get_array_ref::<u8>(0, c) { a.to_slice().write_obj(9u8, c - 1).ok(); }
        } } }
    }
    fx.marked(x + y + z + c - 1, 1);
}

// ------------------------------------------------------------------------------- C18: zero-sized element types
// "a copy of zero-sized elements ... succeeds as a no-op; none of these panics"
macro_rules! zst_harness {
    ($name:ident, |$s:ident, $buf:ident| $body:expr) => {
        #[kani::proof]
        #[kani::unwind(22)]
        pub fn $name() {
            let mut fx = FxM::new();
            let mut $buf = [[0u8; 0]; 2];
            { let $s = fx.slice(); $body; }
            fx.untouched();
        }
    };
}
zst_harness!(zst_slice_copy_to, |s, buf| { let _ = s.copy_to::<[u8; 0]>(&mut buf[..]); });
zst_harness!(zst_slice_copy_from, |s, buf| s.copy_from::<[u8; 0]>(&buf[..]));
zst_harness!(zst_array_copy_to, |s, buf| { if let Ok(a) = s.get_array_ref::<[u8; 0]>(0, 2) { let n = a.copy_to(&mut buf[..]); assert!(n == 2, "C18,C04: copying zero-sized elements must report the elements copied"); } });
zst_harness!(zst_array_copy_from, |s, buf| { if let Ok(a) = s.get_array_ref::<[u8; 0]>(0, 2) { a.copy_from(&buf[..]); } });
