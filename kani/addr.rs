// K-addr (C19): address arithmetic against 128-bit exact arithmetic, for ALL 2^64 x 2^64 operands.
// Loop-free => each harness is a complete proof, not a bounded one.
use crate::{Address, GuestAddress, MemoryRegionAddress};

macro_rules! contract_proofs {
    ($T:ident, $m:ident) => {
        mod $m {
            use super::*;
            #[kani::proof_for_contract(<$T as Address>::new)]
            pub fn new() { let v: u64 = kani::any(); assert!(<$T as Address>::new(v).0 == v); }
            #[kani::proof_for_contract(<$T as Address>::raw_value)]
            pub fn raw_value() { let v: u64 = kani::any(); assert!($T(v).raw_value() == v); }
            #[kani::proof_for_contract(<$T as Address>::checked_offset_from)]
            pub fn checked_offset_from() { let a: u64 = kani::any(); let b: u64 = kani::any(); match $T(a).checked_offset_from($T(b)) { Some(x) => assert!(a >= b && x as u128 == a as u128 - b as u128, "distance wrong"), None => assert!(a < b, "None although the distance fits") } }
            #[kani::proof_for_contract(<$T as Address>::checked_add)]
            pub fn checked_add() { let a: u64 = kani::any(); let b: u64 = kani::any(); match $T(a).checked_add(b) { Some(x) => assert!(x.0 as u128 == a as u128 + b as u128, "sum wrong or wrapped"), None => assert!(a as u128 + b as u128 > u64::MAX as u128, "None although the sum fits") } }
            #[kani::proof_for_contract(<$T as Address>::overflowing_add)]
            pub fn overflowing_add() { let a: u64 = kani::any(); let b: u64 = kani::any(); let (x, f) = $T(a).overflowing_add(b); assert!(x.0 as u128 == (a as u128 + b as u128) % (1u128 << 64), "not the wrapped sum"); assert!(f == (a as u128 + b as u128 > u64::MAX as u128), "overflow flag wrong"); }
            #[kani::proof_for_contract(<$T as Address>::unchecked_add)]
            pub fn unchecked_add() { let a: u64 = kani::any(); let b: u64 = kani::any(); kani::assume(a as u128 + b as u128 <= u64::MAX as u128); assert!($T(a).unchecked_add(b).0 as u128 == a as u128 + b as u128); }
            #[kani::proof_for_contract(<$T as Address>::checked_sub)]
            pub fn checked_sub() { let a: u64 = kani::any(); let b: u64 = kani::any(); match $T(a).checked_sub(b) { Some(x) => assert!(a >= b && x.0 as u128 == a as u128 - b as u128, "difference wrong"), None => assert!(a < b, "None although the difference fits") } }
            #[kani::proof_for_contract(<$T as Address>::overflowing_sub)]
            pub fn overflowing_sub() { let a: u64 = kani::any(); let b: u64 = kani::any(); let (x, f) = $T(a).overflowing_sub(b); assert!(x.0 as u128 == (a as u128 + (1u128 << 64) - b as u128) % (1u128 << 64), "not the wrapped difference"); assert!(f == (a < b), "underflow flag wrong"); }
            #[kani::proof_for_contract(<$T as Address>::unchecked_sub)]
            pub fn unchecked_sub() { let a: u64 = kani::any(); let b: u64 = kani::any(); kani::assume(a >= b); assert!($T(a).unchecked_sub(b).0 as u128 == a as u128 - b as u128); }

            // trait-provided (default) methods and operators: checked at the call boundary
            #[kani::proof]
            pub fn mask_and_bitops() {
                let a: u64 = kani::any();
                let m: u64 = kani::any();
                assert!($T(a).mask(m) == (a & m));
                assert!(($T(a) & m) == $T(a & m));
                assert!(($T(a) | m) == $T(a | m));
                assert!(<$T as Default>::default() == $T(0));
            }
            #[kani::proof]
            pub fn ordering_follows_raw() {
                let a: u64 = kani::any();
                let b: u64 = kani::any();
                kani::cover!(a < b);
                kani::cover!(a == b);
                assert!(($T(a) == $T(b)) == (a == b));
                assert!(($T(a) != $T(b)) == (a != b));
                assert!(($T(a) < $T(b)) == (a < b));
                assert!(($T(a) <= $T(b)) == (a <= b));
                assert!(($T(a) > $T(b)) == (a > b));
                assert!(($T(a) >= $T(b)) == (a >= b));
                assert!($T(a).cmp(&$T(b)) == a.cmp(&b));
                assert!($T(a).partial_cmp(&$T(b)) == Some(a.cmp(&b)));
                assert!(std::cmp::max($T(a), $T(b)) == $T(std::cmp::max(a, b)));
            }
            #[kani::proof]
            pub fn unchecked_offset_from_exact() {
                let a: u64 = kani::any();
                let b: u64 = kani::any();
                kani::assume(a >= b);
                assert!($T(a).unchecked_offset_from($T(b)) as u128 == a as u128 - b as u128);
            }
            #[kani::proof]
            pub fn checked_align_up_least_multiple() {
                let a: u64 = kani::any();
                let k: u32 = kani::any();
                kani::assume(k < 64);
                let p: u64 = 1u64 << k;
                kani::cover!(k == 63);
                kani::cover!(k == 0);
                // exact answer in 128 bits: least multiple of p that is >= a
                let exact: u128 = ((a as u128 + (p as u128 - 1)) / p as u128) * p as u128;
                match $T(a).checked_align_up(p) {
                    Some(r) => {
                        assert!(exact <= u64::MAX as u128, "aligned-up value reported although it does not fit");
                        assert!(r.0 as u128 == exact, "not the least multiple >= address");
                        assert!(r.0 >= a && r.0 - a < p && r.0 & (p - 1) == 0);
                    }
                    None => assert!(exact > u64::MAX as u128, "None although the aligned-up value fits"),
                }
            }
            #[kani::proof]
            pub fn unchecked_align_up_when_fits() {
                let a: u64 = kani::any();
                let k: u32 = kani::any();
                kani::assume(k < 64);
                let p: u64 = 1u64 << k;
                let exact: u128 = ((a as u128 + (p as u128 - 1)) / p as u128) * p as u128;
                kani::assume(a as u128 + (p as u128 - 1) <= u64::MAX as u128);
                assert!($T(a).unchecked_align_up(p).0 as u128 == exact);
            }
        }
    };
}

contract_proofs!(GuestAddress, guest);
contract_proofs!(MemoryRegionAddress, region);
