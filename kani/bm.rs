// K-bm (C09, C07): the AtomicBitmap methods built on iterator adapters (new, enlarge, with_len, Default),
// which Verus cannot take, and the work bound of the range loop.  Child module of atomic_bitmap.rs.
#![allow(dead_code, unused_imports)]
use super::*;
use std::sync::atomic::{AtomicU64, Ordering};

fn ceil_div(a: usize, b: usize) -> usize { if a == 0 { 0 } else { (a - 1) / b + 1 } }
fn word(b: &AtomicBitmap, w: usize) -> u64 { unsafe { *b.map[w].as_ptr() } }

#[kani::proof]
#[kani::unwind(6)]
pub fn new_is_empty_with_stated_len() {
    let bytes: usize = kani::any();
    let ps: usize = kani::any();
    kani::assume(bytes <= 260 && (ps == 1 || ps == 3 || ps == 4 || ps == 128 || ps == 300));
    let b = AtomicBitmap::new(bytes, NonZeroUsize::new(ps).unwrap());
    let pages = ceil_div(bytes, ps);
    kani::cover!(pages == 65);
    kani::cover!(pages == 0);
    assert!(b.len() == pages, "C09: a new bitmap must have ceil(byte_size / page_size) pages");
    assert!(b.byte_size() == bytes, "C09: byte_size must be what was requested");
    assert!(b.map.len() == ceil_div(pages, 64), "C09,C07: one 64-bit word per 64 pages (rounded up)");
    let mut w = 0;
    while w < 5 { if w < b.map.len() { assert!(word(&b, w) == 0, "C09: a new bitmap must be empty"); } w += 1; }
    assert!(!b.is_bit_set(pages) && !b.is_addr_set(bytes.saturating_add(ps)), "C09: anything beyond the last page reads as clean");
}

#[kani::proof]
#[kani::unwind(6)]
pub fn enlarge_keeps_marks_and_adds_clean_pages() {
    let bytes: usize = kani::any();
    let add: usize = kani::any();
    let k: u8 = kani::any();
    // page sizes 1, 7 (not a power of two) and 128; byte sizes on both sides of the 64-page word boundary
    let ps: usize = if k % 3 == 0 { 1 } else if k % 3 == 1 { 7 } else { 128 };
    kani::assume(bytes <= 130 && add <= 130);
    let pages0 = ceil_div(bytes, ps);
    let words0 = ceil_div(pages0, 64);
    // an arbitrary existing content (no bit at or beyond the page count)
    let (c0, c1, c2): (u64, u64, u64) = (kani::any(), kani::any(), kani::any());
    let map: Vec<AtomicU64> = match words0 {
        0 => vec![],
        1 => vec![AtomicU64::new(c0)],
        2 => vec![AtomicU64::new(c0), AtomicU64::new(c1)],
        _ => vec![AtomicU64::new(c0), AtomicU64::new(c1), AtomicU64::new(c2)],
    };
    let mut b = AtomicBitmap { map, size: pages0, byte_size: bytes, page_size: NonZeroUsize::new(ps).unwrap() };
    b.enlarge(add);
    let pages1 = ceil_div(bytes + add, ps);
    kani::cover!(pages1 > pages0 && pages0 % 64 != 0);
    kani::cover!(pages1 == pages0 && add > 0);
    assert!(b.byte_size() == bytes + add, "C09: enlarge must add to the byte size");
    assert!(b.len() == pages1, "C09: after enlarge the page count must be ceil(total byte size / page size)");
    assert!(b.map.len() == ceil_div(pages1, 64), "C09,C07: word count must follow the page count");
    let mut w = 0;
    while w < 5 {
        if w < b.map.len() {
            let expect = if w < words0 { if w == 0 { c0 } else if w == 1 { c1 } else { c2 } } else { 0 };
            assert!(word(&b, w) == expect, "C09: enlarge must keep existing marks and add only clean pages");
        }
        w += 1;
    }
}

#[kani::proof]
#[kani::unwind(12)]
pub fn range_loop_work_is_bounded_by_the_page_count() {
    // However large the guest-chosen length, the loop must stop at the page count: with at most 8 pages
    // an unwinding bound of 12 suffices.  The unwinding assertion IS the obligation here (C07: no
    // request may make the library loop without end).
    let pages: usize = kani::any();
    kani::assume(pages <= 8);
    let b = AtomicBitmap { map: vec![AtomicU64::new(0)], size: pages, byte_size: pages, page_size: NonZeroUsize::new(1).unwrap() };
    let start: usize = kani::any();
    let len: usize = kani::any();
    let set: bool = kani::any();
    if set { b.set_addr_range(start, len); } else { b.reset_addr_range(start, len); }
    let w = word(&b, 0);
    assert!(w >> 8 == 0 && (pages == 8 || w >> pages == 0), "C09: no page at or beyond the page count may ever be set");
}

#[kani::proof]
#[kani::unwind(6)]
pub fn default_and_with_len() {
    let d = AtomicBitmap::default();
    assert!(d.len() == 0 && d.byte_size() == 0 && d.map.len() == 0, "C09: the default bitmap is empty and has no pages");
    let n: usize = kani::any();
    kani::assume(n <= 200_000);
    let b = <AtomicBitmap as NewBitmap>::with_len(n);
    let ps = unsafe { crate::verif_ffi::PAGE_SIZE };
    assert!(b.len() == ceil_div(n, ps) && b.byte_size() == n, "C09: with_len must size the bitmap by the system page size");
}
