// K-io (C13, C14, C05): the volatile stream adapters against their std::io counterparts (the oracle is
// std itself, executed symbolically in the same harness on a twin), and the retry / short-transfer loops
// under scripted faults.  Child module of src/io.rs (overlay O1).
#![allow(dead_code, unused_imports, static_mut_refs, unused_variables)]
use super::*;
use crate::{Bytes, VolatileMemory, VolatileSlice};
use std::io::{Cursor, ErrorKind, Read, Write};

const M: usize = 6; // guest buffer bytes
const S: usize = 6; // stream bytes

fn kind_of(e: &VolatileMemoryError) -> Option<ErrorKind> {
    match e { VolatileMemoryError::IOError(x) => Some(x.kind()), _ => None }
}

// ------------------------------------------------------------------------------------------ C13: &[u8]
#[kani::proof]
#[kani::unwind(10)]
pub fn slice_reader_matches_std() {
    let data: [u8; S] = kani::any();
    let sl: usize = kani::any();
    let (b1, b2): (usize, usize) = (kani::any(), kani::any());
    kani::assume(sl <= S && b1 <= M && b2 <= M);
    let mut mem = [0u8; M];
    let mut twin = [0u8; M];
    let mut r_v: &[u8] = &data[..sl];
    let mut r_s: &[u8] = &data[..sl];
    // two consecutive calls, so the advance after a short transfer is exercised
    for bl in [b1, b2] {
        let pre = mem;
        let got_v = { let mut vs = VolatileSlice::from(&mut mem[..bl]); r_v.read_volatile(&mut vs) };
        let got_s = r_s.read(&mut twin[..bl]);
        match (got_v, got_s) {
            (Ok(a), Ok(b)) => assert!(a == b, "C13: read_volatile on &[u8] returns a different count than std::io::Read"),
            _ => assert!(false, "C13: read on &[u8] never fails in std"),
        }
        assert!(r_v.len() == r_s.len(), "C13,C03: remaining stream differs from std after read (a chunked guest transfer would re-read or skip bytes)");
        let mut i = 0;
        while i < M {
            if i < bl { assert!(mem[i] == twin[i], "C13,C04: bytes landed differ from std::io::Read"); }
            else { assert!(mem[i] == pre[i], "C13,C01: adapter touched memory beyond the buffer it was given"); }
            i += 1;
        }
        twin = mem;
    }
}

#[kani::proof]
#[kani::unwind(10)]
pub fn slice_reader_exact_matches_std() {
    let data: [u8; S] = kani::any();
    let sl: usize = kani::any();
    let bl: usize = kani::any();
    kani::assume(sl <= S && bl <= M);
    let mut mem = [0u8; M];
    let mut twin = [0u8; M];
    let mut r_v: &[u8] = &data[..sl];
    let mut r_s: &[u8] = &data[..sl];
    let got_v = { let mut vs = VolatileSlice::from(&mut mem[..bl]); r_v.read_exact_volatile(&mut vs) };
    let got_s = r_s.read_exact(&mut twin[..bl]);
    if bl == 0 { assert!(got_v.is_ok(), "C18,C13: a zero-length exact read must succeed even from an exhausted stream"); }
    match (&got_v, &got_s) {
        (Ok(()), Ok(())) => {
            assert!(r_v.len() == r_s.len(), "C13,C03: remaining stream differs from std after read_exact");
            let mut i = 0;
            while i < M { assert!(mem[i] == twin[i], "C13,C04: bytes landed differ from std read_exact"); i += 1; }
        }
        (Err(e), Err(f)) => assert!(kind_of(e) == Some(f.kind()) && f.kind() == ErrorKind::UnexpectedEof, "C13: exact read must fail with UnexpectedEof like std"),
        _ => assert!(false, "C13: read_exact_volatile succeeds/fails differently from std::io::Read::read_exact"),
    }
}

// ------------------------------------------------------------------------------------------ C13: &mut [u8]
#[kani::proof]
#[kani::unwind(10)]
pub fn slice_writer_matches_std() {
    let mut mem: [u8; M] = kani::any();
    let sl: usize = kani::any();
    let (b1, b2): (usize, usize) = (kani::any(), kani::any());
    let exact: bool = kani::any();
    kani::assume(sl <= S && b1 <= M && b2 <= M);
    let mut out_v = [0u8; S];
    let mut out_s = [0u8; S];
    let src = mem;
    {
        let mut w_v: &mut [u8] = &mut out_v[..sl];
        let mut w_s: &mut [u8] = &mut out_s[..sl];
        for bl in [b1, b2] {
            let vs = VolatileSlice::from(&mut mem[..bl]);
            if exact {
                let a = w_v.write_all_volatile(&vs);
                let b = w_s.write_all(&src[..bl]);
                match (&a, &b) {
                    (Ok(()), Ok(())) => {}
                    (Err(e), Err(f)) => assert!(kind_of(e) == Some(f.kind()) && f.kind() == ErrorKind::WriteZero, "C13: write_all must fail with WriteZero like std"),
                    _ => assert!(false, "C13: write_all_volatile succeeds/fails differently from std::io::Write::write_all"),
                }
            } else {
                match (w_v.write_volatile(&vs), w_s.write(&src[..bl])) {
                    (Ok(a), Ok(b)) => assert!(a == b, "C13: write_volatile on &mut [u8] returns a different count than std::io::Write"),
                    _ => assert!(false, "C13: write on &mut [u8] never fails in std"),
                }
            }
            assert!(w_v.len() == w_s.len(), "C13,C03: remaining sink differs from std after write");
        }
    }
    let mut i = 0;
    while i < S { assert!(out_v[i] == out_s[i], "C13,C04: bytes handed to the sink differ from std::io::Write"); i += 1; }
    let mut i = 0;
    while i < M { assert!(mem[i] == src[i], "C13,C04: writing out of guest memory must not change it"); i += 1; }
}

// C13 Vec<u8>: Vec::reserve (realloc) does not finish in CBMC either; bounded stand-in in native/c14_scripts.rs

// ------------------------------------------------------------------------------------------ C13: Cursor
#[kani::proof]
#[kani::unwind(10)]
pub fn cursor_reader_matches_std() {
    let data: [u8; S] = kani::any();
    let sl: usize = kani::any();
    let pos: u64 = kani::any();
    let (b1, b2): (usize, usize) = (kani::any(), kani::any());
    let exact: bool = kani::any();
    kani::assume(sl <= S && b1 <= M && b2 <= M);
    kani::assume(pos <= u64::MAX - 2 * (M as u64)); // std itself overflows `pos += n` beyond this
    kani::cover!(pos > sl as u64);
    let mut mem = [0u8; M];
    let mut twin = [0u8; M];
    let mut c_v = Cursor::new(&data[..sl]);
    let mut c_s = Cursor::new(&data[..sl]);
    c_v.set_position(pos);
    c_s.set_position(pos);
    for bl in [b1, b2] {
        let pre = mem;
        if exact {
            let a = { let mut vs = VolatileSlice::from(&mut mem[..bl]); c_v.read_exact_volatile(&mut vs) };
            let b = c_s.read_exact(&mut twin[..bl]);
            if bl == 0 { assert!(a.is_ok(), "C18,C13: a zero-length exact read must succeed wherever the cursor stands (drained, seeked past the end, empty)"); }
            match (&a, &b) {
                (Ok(()), Ok(())) => assert!(c_v.position() == c_s.position(), "C13: cursor position differs from std after read_exact"),
                (Err(e), Err(f)) => assert!(kind_of(e) == Some(f.kind()), "C13: cursor read_exact error kind differs from std"),
                _ => assert!(false, "C13: cursor read_exact_volatile succeeds/fails differently from std"),
            }
            if a.is_err() { return; } // std leaves position/buffer unspecified after a failed exact read
        } else {
            let a = { let mut vs = VolatileSlice::from(&mut mem[..bl]); c_v.read_volatile(&mut vs) };
            let b = c_s.read(&mut twin[..bl]);
            match (a, b) {
                (Ok(x), Ok(y)) => assert!(x == y, "C13: cursor read_volatile returns a different count than std"),
                _ => assert!(false, "C13: cursor read never fails in std"),
            }
            assert!(c_v.position() == c_s.position(), "C13: cursor position differs from std after read");
        }
        let mut i = 0;
        while i < M {
            if i < bl { assert!(mem[i] == twin[i], "C13,C04: cursor bytes landed differ from std"); }
            else { assert!(mem[i] == pre[i], "C13,C01: adapter touched memory beyond the buffer it was given"); }
            i += 1;
        }
        twin = mem;
    }
}

#[kani::proof]
#[kani::unwind(10)]
pub fn cursor_writer_matches_std() {
    let mut mem: [u8; M] = kani::any();
    let src = mem;
    let sl: usize = kani::any();
    let pos: u64 = kani::any();
    let (b1, b2): (usize, usize) = (kani::any(), kani::any());
    kani::assume(sl <= S && b1 <= M && b2 <= M && pos <= u64::MAX - 2 * (M as u64));
    let mut out_v = [0u8; S];
    let mut out_s = [0u8; S];
    {
        let mut c_v = Cursor::new(&mut out_v[..sl]);
        let mut c_s = Cursor::new(&mut out_s[..sl]);
        c_v.set_position(pos);
        c_s.set_position(pos);
        for bl in [b1, b2] {
            let vs = VolatileSlice::from(&mut mem[..bl]);
            match (c_v.write_volatile(&vs), c_s.write(&src[..bl])) {
                (Ok(a), Ok(b)) => assert!(a == b, "C13: cursor write_volatile returns a different count than std"),
                _ => assert!(false, "C13: cursor write never fails in std"),
            }
            assert!(c_v.position() == c_s.position(), "C13: cursor position differs from std after write");
        }
    }
    let mut i = 0;
    while i < S { assert!(out_v[i] == out_s[i], "C13,C04: bytes written through the cursor differ from std"); i += 1; }
}

// ------------------------------------------------------------------------------------------ C13/C05: raw file descriptors (O3 model of libc::read / libc::write)
pub fn stub_last_os_error() -> std::io::Error { std::io::Error::from(ErrorKind::Other) }

#[kani::proof]
#[kani::unwind(15)]
pub fn raw_fd_read_is_one_syscall_and_marks() {
    use crate::volatile_memory::verif_kani_vs::{FxL, RecBitmap};
    let mut fx = FxL::new();
    let fd: i32 = kani::any();
    kani::assume(fd >= 0);
    let size = fx.size;
    let host = fx.mem.0.as_ptr() as usize + fx.o;
    let r = {
        let mut s = fx.slice();
        // SAFETY: never used for real I/O (libc::read is the O3 model)
        let mut b = unsafe { std::os::fd::BorrowedFd::borrow_raw(fd) };
        b.read_volatile(&mut s)
    };
    let (n, last, ret) = unsafe { (crate::verif_ffi::READ_CALLS, crate::verif_ffi::LAST, crate::verif_ffi::LAST_RET) };
    assert!(n == 1, "C13: a descriptor read must be exactly one read(2)");
    assert!(last.0 == fd && last.1 == host && last.2 == size, "C13,C01: read(2) must be handed exactly the slice (fd, pointer, length)");
    if ret >= 0 {
        assert!(matches!(r, Ok(k) if k == ret as usize), "C13,C14: descriptor read must report the count read(2) returned (a short transfer reported as complete makes the exact loops skip bytes)");
        if ret == 0 { fx.unmarked(); } else { fx.marked(0, ret as usize); }
    } else {
        assert!(matches!(&r, Err(VolatileMemoryError::IOError(_))), "C13: a failing read(2) must surface as IOError");
        // a read that fails part-way must report at least everything it could have touched
        if size == 0 { fx.unmarked(); } else { fx.marked(0, size); }
    }
}

#[kani::proof]
#[kani::unwind(10)]
pub fn raw_fd_write_is_one_syscall() {
    use crate::volatile_memory::verif_kani_vs::{FxL, RecBitmap};
    let mut fx = FxL::new();
    let fd: i32 = kani::any();
    kani::assume(fd >= 0);
    let size = fx.size;
    let host = fx.mem.0.as_ptr() as usize + fx.o;
    let r = {
        let s = fx.slice();
        let mut b = unsafe { std::os::fd::BorrowedFd::borrow_raw(fd) };
        b.write_volatile(&s)
    };
    let (n, last, ret) = unsafe { (crate::verif_ffi::WRITE_CALLS, crate::verif_ffi::LAST, crate::verif_ffi::LAST_RET) };
    assert!(n == 1, "C13: a descriptor write must be exactly one write(2)");
    assert!(last.0 == fd && last.1 == host && last.2 == size, "C13,C01: write(2) must be handed exactly the slice (fd, pointer, length)");
    if ret >= 0 { assert!(matches!(r, Ok(k) if k == ret as usize), "C13,C14: descriptor write must report the count write(2) returned (a short transfer reported as complete makes the exact loops skip bytes)"); }
    else { assert!(matches!(&r, Err(VolatileMemoryError::IOError(_))), "C13: a failing write(2) must surface as IOError"); }
    fx.unmarked();
}

// C14 (scripted faults through retry_eintr! / read_exact_volatile / write_all_volatile): CBMC does not
// finish these harnesses -- every loop iteration drops a Result<_, io::Error>, whose drop glue recurses
// through `dyn Error` (15+ minutes, > 20 GB even for a 2-entry script) -- see native/c14_scripts.rs for
// the bounded stand-in (exhaustive native enumeration) and DESIGN.md section 5 / C14.
