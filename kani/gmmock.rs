// K-gmmock (C03, C14 guest level): the REAL GuestMemory::try_access and the REAL blanket
// `impl Bytes<GuestAddress> for T: GuestMemory` running over data-free mock regions that record which
// (region, region offset, length) each chunk was handed to and answer with symbolic counts.
// Covers what Verus cannot take: `read`, `read_volatile_from`, `write_volatile_to` (closures capturing
// &mut) and the exact forms built on them.  Bounded(3 regions); addresses, sizes, counts unbounded.
#![allow(dead_code, unused_imports, unused_variables, static_mut_refs)]
use super::*;
use crate::bitmap::BitmapSlice;
use crate::{Bytes, GuestAddress, GuestMemory, GuestMemoryError, GuestMemoryRegion, MemoryRegionAddress, ReadVolatile, WriteVolatile, VolatileSlice};
use std::sync::atomic::Ordering;

const MAXC: usize = 5;
#[derive(Clone, Copy)]
pub struct Call { pub region: usize, pub off: u64, pub len: usize, pub ret: usize }
static mut CALLS: [Call; MAXC] = [Call { region: 0, off: 0, len: 0, ret: 0 }; MAXC];
static mut NC: usize = 0;
/// true: a region transfers less than it was asked (short stream read); false: always the whole chunk
static mut SHORT: bool = false;
/// true: the region refuses atomic accesses (what a misaligned or region-straddling address gets)
static mut ATOMIC_ERR: bool = false;

pub struct MockRegion { pub id: usize, pub start: u64, pub len: u64 }
impl MockRegion {
    fn rec(&self, off: u64, want: usize) -> std::result::Result<usize, GuestMemoryError> {
        unsafe {
            assert!(NC < MAXC, "call log overflow");
            let cap = if off < self.len { let c = self.len - off; if (want as u64) < c { want } else { c as usize } } else { 0 };
            let ret = if SHORT && cap > 0 { let k: usize = kani::any(); kani::assume(k <= cap); k } else { cap };
            CALLS[NC] = Call { region: self.id, off, len: want, ret };
            NC += 1;
            Ok(ret)
        }
    }
}
impl Bytes<MemoryRegionAddress> for MockRegion {
    type E = GuestMemoryError;
    fn write(&self, buf: &[u8], addr: MemoryRegionAddress) -> std::result::Result<usize, Self::E> { self.rec(addr.0, buf.len()) }
    fn read(&self, buf: &mut [u8], addr: MemoryRegionAddress) -> std::result::Result<usize, Self::E> { self.rec(addr.0, buf.len()) }
    fn write_slice(&self, buf: &[u8], addr: MemoryRegionAddress) -> std::result::Result<(), Self::E> { self.rec(addr.0, buf.len()).map(|_| ()) }
    fn read_slice(&self, buf: &mut [u8], addr: MemoryRegionAddress) -> std::result::Result<(), Self::E> { self.rec(addr.0, buf.len()).map(|_| ()) }
    fn read_volatile_from<F: ReadVolatile>(&self, addr: MemoryRegionAddress, _src: &mut F, count: usize) -> std::result::Result<usize, Self::E> { self.rec(addr.0, count) }
    fn read_exact_volatile_from<F: ReadVolatile>(&self, addr: MemoryRegionAddress, _src: &mut F, count: usize) -> std::result::Result<(), Self::E> { self.rec(addr.0, count).map(|_| ()) }
    fn write_volatile_to<F: WriteVolatile>(&self, addr: MemoryRegionAddress, _dst: &mut F, count: usize) -> std::result::Result<usize, Self::E> { self.rec(addr.0, count) }
    fn write_all_volatile_to<F: WriteVolatile>(&self, addr: MemoryRegionAddress, _dst: &mut F, count: usize) -> std::result::Result<(), Self::E> { self.rec(addr.0, count).map(|_| ()) }
    fn store<T: crate::AtomicAccess>(&self, _val: T, addr: MemoryRegionAddress, _order: Ordering) -> std::result::Result<(), Self::E> {
        let r = self.rec(addr.0, std::mem::size_of::<T>()).map(|_| ());
        if unsafe { ATOMIC_ERR } { Err(GuestMemoryError::InvalidBackendAddress) } else { r }
    }
    fn load<T: crate::AtomicAccess>(&self, addr: MemoryRegionAddress, _order: Ordering) -> std::result::Result<T, Self::E> {
        let r = self.rec(addr.0, std::mem::size_of::<T>()).map(|_| T::zeroed());
        if unsafe { ATOMIC_ERR } { Err(GuestMemoryError::InvalidBackendAddress) } else { r }
    }
}
impl GuestMemoryRegion for MockRegion {
    type B = ();
    fn len(&self) -> u64 { self.len }
    fn start_addr(&self) -> GuestAddress { GuestAddress(self.start) }
    fn bitmap(&self) -> &() { &() }
}
pub struct MockMem { pub r: [MockRegion; 3], pub n: usize }
impl GuestMemory for MockMem {
    type R = MockRegion;
    fn num_regions(&self) -> usize { self.n }
    fn find_region(&self, addr: GuestAddress) -> Option<&MockRegion> {
        let mut i = 0;
        while i < 3 { if i < self.n && addr.0 >= self.r[i].start && addr.0 - self.r[i].start < self.r[i].len { return Some(&self.r[i]); } i += 1; }
        None
    }
    fn iter(&self) -> impl Iterator<Item = &MockRegion> { self.r[..self.n].iter() }
}
fn any_mem() -> MockMem {
    let (s0, l0, s1, l1, s2, l2): (u64, u64, u64, u64, u64, u64) = (kani::any(), kani::any(), kani::any(), kani::any(), kani::any(), kani::any());
    let n: usize = kani::any();
    kani::assume(n >= 1 && n <= 3 && l0 >= 1 && l1 >= 1 && l2 >= 1);
    // sorted, disjoint, not wrapping (what GuestRegionMmap::new / from_arc_regions guarantee)
    kani::assume(s0 <= u64::MAX - l0 && s1 <= u64::MAX - l1 && s2 <= u64::MAX - l2);
    kani::assume(s0 + l0 <= s1 && s1 + l1 <= s2);
    MockMem { r: [MockRegion { id: 0, start: s0, len: l0 }, MockRegion { id: 1, start: s1, len: l1 }, MockRegion { id: 2, start: s2, len: l2 }], n }
}
fn owner(m: &MockMem, a: u128) -> Option<usize> {
    let mut i = 0;
    while i < 3 { if i < m.n && a >= m.r[i].start as u128 && a < m.r[i].start as u128 + m.r[i].len as u128 { return Some(i); } i += 1; }
    None
}
pub struct NullStream;
impl ReadVolatile for NullStream { fn read_volatile<B: BitmapSlice>(&mut self, _b: &mut VolatileSlice<B>) -> std::result::Result<usize, crate::VolatileMemoryError> { Ok(0) } }
impl WriteVolatile for NullStream { fn write_volatile<B: BitmapSlice>(&mut self, _b: &VolatileSlice<B>) -> std::result::Result<usize, crate::VolatileMemoryError> { Ok(0) } }

/// the flat-array reading of the call log: chunk k goes to the region that owns (addr + bytes done so
/// far), at offset (that address - region start), with length min(rest of region, rest of request),
/// and the next chunk starts where the bytes the previous one REPORTED end
fn check_log(m: &MockMem, addr: u64, count: usize, ret: &std::result::Result<usize, GuestMemoryError>, short_ok: bool, buffer_form: bool) {
    let nc = unsafe { NC };
    let mut done: usize = 0;
    let mut k = 0;
    let mut stopped = false;
    while k < MAXC {
        if k < nc {
            let c = unsafe { CALLS[k] };
            assert!(!stopped, "C03,C14: a chunk was transferred after the transfer had to stop");
            let a = addr as u128 + done as u128;
            match owner(m, a) {
                Some(i) => {
                    assert!(c.region == i, "C03: a chunk was handed to a region that does not own its address");
                    assert!(c.off as u128 == a - m.r[i].start as u128, "C03,C14: a chunk was placed at the wrong region offset (must continue at addr + bytes actually transferred)");
                    let rest_region = m.r[i].len - c.off;
                    let rest_req = count - done;
                    // buffer forms hand the region the rest of the BUFFER (the region caps it itself);
                    // stream forms hand it min(rest of the region, rest of the request)
                    let want = if buffer_form || (rest_req as u64) < rest_region { rest_req } else { rest_region as usize };
                    assert!(c.len == want, "C03: a chunk must be the rest of the buffer (buffer forms) / min(rest of the region, rest of the request) (stream forms) long");
                    done += c.ret;
                    if c.ret == 0 || done == count { stopped = true; }
                }
                None => assert!(false, "C03: a chunk was handed out for an unmapped address"),
            }
        }
        k += 1;
    }
    match ret {
        Ok(t) => {
            assert!(*t == done, "C03,C14: the reported count is not the number of bytes transferred");
            if !short_ok && count > 0 { assert!(done == count || owner(m, addr as u128 + done as u128).is_none(), "C03: the transfer stopped before the end of the mapped run"); }
            assert!(count == 0 || done > 0 || unsafe { SHORT }, "C03: Ok(0) for a non-empty request at a mapped address");
        }
        Err(GuestMemoryError::InvalidGuestAddress(a)) => assert!(nc == 0 && a.0 == addr && owner(m, addr as u128).is_none() && (count > 0 || !buffer_form), "C03,C18: InvalidGuestAddress only when the first byte is unmapped (and never for an empty buffer)"),
        Err(_) => assert!(false, "C03: unexpected error from a transfer over regions that never fail"),
    }
}

macro_rules! gm_harness {
    ($name:ident, $short:expr, $bufform:expr, $maxc:expr, |$m:ident, $addr:ident, $count:ident, $buf:ident, $st:ident| $call:expr) => {
        #[kani::proof]
        #[kani::unwind(6)]
        pub fn $name() {
            let $m = any_mem();
            let $addr: u64 = kani::any();
            let $count: usize = kani::any();
            kani::assume($count <= $maxc);
            unsafe { SHORT = $short; }
            let mut $buf = [0u8; 24];
            let mut $st = NullStream;
            let ret: std::result::Result<usize, GuestMemoryError> = $call;
            kani::cover!(unsafe { NC } >= 2);
            kani::cover!(ret.is_err());
            check_log(&$m, $addr, $count, &ret, $short, $bufform);
            std::mem::forget(ret);
        }
    };
}
gm_harness!(guest_write, false, true, 8, |m, addr, count, buf, st| m.write(&buf[..count], GuestAddress(addr)));
gm_harness!(guest_read, false, true, 8, |m, addr, count, buf, st| m.read(&mut buf[..count], GuestAddress(addr)));
gm_harness!(guest_read_volatile_from_short, true, false, 3, |m, addr, count, buf, st| m.read_volatile_from(GuestAddress(addr), &mut st, count));
gm_harness!(guest_write_volatile_to, false, false, 8, |m, addr, count, buf, st| m.write_volatile_to(GuestAddress(addr), &mut st, count));

#[kani::proof]
#[kani::unwind(6)]
pub fn guest_exact_forms_report_partial_buffer() {
    let m = any_mem();
    let addr: u64 = kani::any();
    let count: usize = kani::any();
    let which: u8 = kani::any();
    kani::assume(count >= 1 && count <= 8 && which < 4);
    unsafe { SHORT = false; }
    let mut buf = [0u8; 24];
    let mut st = NullStream;
    let r: std::result::Result<(), GuestMemoryError> = match which {
        0 => m.write_slice(&buf[..count], GuestAddress(addr)),
        1 => m.read_slice(&mut buf[..count], GuestAddress(addr)),
        2 => m.read_exact_volatile_from(GuestAddress(addr), &mut st, count),
        _ => m.write_all_volatile_to(GuestAddress(addr), &mut st, count),
    };
    // length of the mapped run starting at addr, capped at count
    let mut run: usize = 0;
    let mut k = 0;
    while k < 4 {
        if run < count { if let Some(i) = owner(&m, addr as u128 + run as u128) { let rest = m.r[i].len - (addr as u128 + run as u128 - m.r[i].start as u128) as u64; let add = if ((count - run) as u64) < rest { count - run } else { rest as usize }; run += add; } }
        k += 1;
    }
    match &r {
        Ok(()) => assert!(run == count, "C03: an all-or-error form succeeded although the whole range is not a mapped run"),
        Err(GuestMemoryError::PartialBuffer { expected, completed }) => assert!(run < count && run > 0 && *expected == count && *completed == run, "C03: PartialBuffer must report expected = requested and completed = length of the mapped run"),
        Err(GuestMemoryError::InvalidGuestAddress(a)) => assert!(run == 0 && a.0 == addr, "C03: InvalidGuestAddress only when the first byte is unmapped"),
        Err(_) => assert!(false, "C03: unexpected error"),
    }
    std::mem::forget(r);
}

// guest-level atomic store / load: exactly ONE atomic access of the owning region at (address - region
// start), and the region's verdict is the result -- a refused access (misaligned, straddling a region
// end) is reported, never retried through a plain, tearable object copy.
#[kani::proof]
#[kani::unwind(6)]
pub fn guest_atomic_access_is_exactly_the_regions() {
    let m = any_mem();
    let addr: u64 = kani::any();
    let fail: bool = kani::any();
    let do_store: bool = kani::any();
    unsafe { ATOMIC_ERR = fail; SHORT = false; }
    let r: std::result::Result<(), GuestMemoryError> = if do_store { m.store(5u32, GuestAddress(addr), Ordering::SeqCst) } else { m.load::<u32>(GuestAddress(addr), Ordering::SeqCst).map(|_| ()) };
    let nc = unsafe { NC };
    match owner(&m, addr as u128) {
        None => assert!(nc == 0 && matches!(r, Err(GuestMemoryError::InvalidGuestAddress(a)) if a.0 == addr), "C03,C06: an atomic access at an unmapped address must fail with InvalidGuestAddress and touch no region"),
        Some(i) => {
            assert!(nc == 1, "C06,C03: a guest-level atomic access must be exactly one access of the owning region (no fallback, no second attempt)");
            let c = unsafe { CALLS[0] };
            assert!(c.region == i && c.off == addr - m.r[i].start && c.len == 4, "C06,C03: atomic access handed to the wrong region / offset / width");
            if fail { assert!(matches!(r, Err(GuestMemoryError::InvalidBackendAddress)), "C06: an atomic access the region refused (misaligned / straddling) must be reported as such, never performed some other way"); }
            else { assert!(r.is_ok(), "C06,C03: an atomic access the region performed must succeed"); }
        }
    }
    std::mem::forget(r);
}
