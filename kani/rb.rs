// K-rb (C03, C04, C05, C18): the region-level byte access of GuestRegionMmap (Bytes<MemoryRegionAddress>)
// over a harness-owned buffer (O4: MmapRegion::verif_from_raw), against the same byte-array oracle and
// recording bitmap as K-vs.  Child module of src/mmap/mod.rs.
#![allow(dead_code, unused_imports, unused_variables)]
use super::*;
use crate::bitmap::{Bitmap, BitmapSlice, WithBitmapSlice};
use crate::volatile_memory::verif_kani_vs::{min, Al, Log, RecBitmap, G, N};
use crate::{Bytes, GuestMemoryError, GuestMemoryRegion};

/// region bitmap whose slices are recording slices
#[derive(Debug)]
pub struct RecBase { pub log: *const Log }
impl std::fmt::Debug for Log { fn fmt(&self, _f: &mut std::fmt::Formatter<'_>) -> std::fmt::Result { Ok(()) } }
impl<'a> WithBitmapSlice<'a> for RecBase { type S = RecBitmap; }
impl Bitmap for RecBase {
    fn mark_dirty(&self, offset: usize, len: usize) { RecBitmap { base: 0, log: self.log }.mark_dirty(offset, len) }
    fn dirty_at(&self, _o: usize) -> bool { false }
    fn slice_at(&self, offset: usize) -> RecBitmap { RecBitmap { base: offset, log: self.log } }
}
// SAFETY: single-threaded harness
unsafe impl Send for RecBase {}
unsafe impl Sync for RecBase {}

pub struct Fx { pub mem: Al, pub pre: [u8; N + G], pub size: usize, pub log: Log }
impl Fx {
    pub fn new() -> Fx {
        let mem = Al(kani::any());
        let size: usize = kani::any();
        kani::assume(size >= 1 && size <= N);
        let pre = mem.0;
        Fx { mem, pre, size, log: Log::new() }
    }
    pub fn region(&mut self) -> GuestRegionMmap<RecBase> {
        let m = MmapRegion::verif_from_raw(self.mem.0.as_mut_ptr(), self.size, RecBase { log: &self.log as *const Log });
        match GuestRegionMmap::new(m, GuestAddress(kani::any())) { Ok(r) => r, Err(_) => { kani::assume(false); unreachable!() } }
    }
    pub fn wrote(&self, at: usize, n: usize, src: &[u8]) {
        let mut i = 0;
        while i < N + G {
            if i >= at && i < at + n { assert!(self.mem.0[i] == src[i - at], "C04,C03: written byte differs from the source byte"); }
            else { assert!(self.mem.0[i] == self.pre[i], "C04,C03,C01: a byte outside the addressed range changed"); }
            i += 1;
        }
        assert!(self.log.all_within(at, n), "C16: dirty mark outside the bytes written");
        if n > 0 { assert!(self.log.covers(at) && self.log.covers(at + n - 1), "C05: written bytes not reported dirty at the region's own offset"); }
    }
    pub fn untouched(&self) {
        let mut i = 0;
        while i < N + G { assert!(self.mem.0[i] == self.pre[i], "C04,C18: memory changed by a read / rejected / empty operation"); i += 1; }
        assert!(self.log.nothing_marked(), "C16,C18: a read / rejected / empty operation marked something dirty");
    }
}

#[kani::proof]
#[kani::unwind(22)]
pub fn region_write_and_write_slice() {
    let mut fx = Fx::new();
    let buf: [u8; N + 1] = kani::any();
    let bl: usize = kani::any();
    kani::assume(bl <= N + 1);
    let addr: u64 = kani::any();
    let all: bool = kani::any();
    let size = fx.size;
    let keep = {
        let r = fx.region();
        let x = if all { (None, Some(r.write_slice(&buf[..bl], MemoryRegionAddress(addr)))) } else { (Some(r.write(&buf[..bl], MemoryRegionAddress(addr))), None) };
        std::mem::forget(r);
        x
    };
    let (rw, rs) = (&keep.0, &keep.1);
    kani::cover!(bl > 0 && addr as usize + bl > size && (addr as usize) < size);
    if bl == 0 {
        // the byte-access contract: an empty access succeeds at ANY address, also out of range ones
        if let Some(r) = rw { assert!(matches!(r, Ok(0)), "C18: empty region write must be Ok(0) at any address"); }
        if let Some(r) = rs { assert!(r.is_ok(), "C18: empty region write_slice must succeed at any address"); }
        fx.untouched();
    } else if addr >= size as u64 {
        if let Some(r) = rw { assert!(r.is_err(), "C04,C03: non-empty region write at or past the end must fail"); }
        if let Some(r) = rs { assert!(r.is_err(), "C04,C03: non-empty region write_slice at or past the end must fail"); }
        fx.untouched();
    } else {
        let n = min(bl, size - addr as usize);
        if let Some(r) = rw { assert!(matches!(r, Ok(c) if *c == n), "C04,C03: region write must report min(len, size - addr)"); }
        if let Some(r) = rs {
            if n == bl { assert!(r.is_ok(), "C04,C03: region write_slice of a range that fits must succeed"); }
            else { assert!(matches!(r, Err(GuestMemoryError::PartialBuffer { expected, completed }) if *expected == bl && *completed == n), "C03,C04: region write_slice that does not fit must report PartialBuffer{expected, completed}"); }
        }
        fx.wrote(addr as usize, n, &buf[..bl]);
    }
    std::mem::forget(keep);
}

#[kani::proof]
#[kani::unwind(22)]
pub fn region_read_and_read_slice() {
    let mut fx = Fx::new();
    let mut buf: [u8; N + 1] = kani::any();
    let bl: usize = kani::any();
    kani::assume(bl <= N + 1);
    let addr: u64 = kani::any();
    let all: bool = kani::any();
    let size = fx.size;
    let (rw, rs) = {
        let r = fx.region();
        if all { (None, Some(r.read_slice(&mut buf[..bl], MemoryRegionAddress(addr)))) } else { (Some(r.read(&mut buf[..bl], MemoryRegionAddress(addr))), None) }
    };
    fx.untouched();
    if bl == 0 {
        if let Some(r) = rw { assert!(matches!(r, Ok(0)), "C18: empty region read must be Ok(0) at any address"); }
        if let Some(r) = rs { assert!(r.is_ok(), "C18: empty region read_slice must succeed at any address"); }
    } else if addr >= size as u64 {
        if let Some(r) = rw { assert!(r.is_err(), "C04,C03: non-empty region read at or past the end must fail"); }
        if let Some(r) = rs { assert!(r.is_err(), "C04,C03: non-empty region read_slice at or past the end must fail"); }
    } else {
        let n = min(bl, size - addr as usize);
        if let Some(r) = rw { assert!(matches!(r, Ok(c) if c == n), "C04,C03: region read must report min(len, size - addr)"); }
        if let Some(r) = rs {
            if n == bl { assert!(r.is_ok(), "C04,C03: region read_slice of a range that fits must succeed"); }
            else { assert!(matches!(r, Err(GuestMemoryError::PartialBuffer { expected, completed }) if expected == bl && completed == n), "C03,C04: region read_slice that does not fit must report PartialBuffer{expected, completed}"); }
        }
        let mut i = 0;
        while i < N + 1 { if i < n { assert!(buf[i] == fx.pre[addr as usize + i], "C04,C03: region read byte differs from memory"); } i += 1; }
    }
}

#[kani::proof]
#[kani::unwind(22)]
pub fn region_objects_and_atomics() {
    let mut fx = Fx::new();
    let addr: u64 = kani::any();
    let v: u32 = kani::any();
    let atomic: bool = kani::any();
    let size = fx.size;
    let host = fx.mem.0.as_ptr() as usize;
    let r = {
        let reg = fx.region();
        if atomic { reg.store(v, MemoryRegionAddress(addr), std::sync::atomic::Ordering::SeqCst) } else { reg.write_obj(v, MemoryRegionAddress(addr)) }
    };
    let fits = addr < size as u64 && 4 <= size - addr as usize;
    if fits && (!atomic || (host + addr as usize) % 4 == 0) {
        assert!(r.is_ok(), "C04: region object / atomic store that fits (and is aligned) must succeed");
        fx.wrote(addr as usize, 4, &v.to_ne_bytes());
    } else {
        assert!(r.is_err(), "C04,C01: region object / atomic store that does not fit (or is misaligned) must fail");
        if atomic || addr >= size as u64 { fx.untouched(); }
    }
}

#[kani::proof]
#[kani::unwind(22)]
pub fn region_queries() {
    let mut fx = Fx::new();
    let size = fx.size;
    let host = fx.mem.0.as_ptr() as usize;
    let (off, cnt): (u64, usize) = (kani::any(), kani::any());
    let reg = fx.region();
    assert!(reg.len() == size as u64, "C02: region length is the mapping size");
    match reg.get_slice(MemoryRegionAddress(off), cnt) {
        Ok(s) => assert!(off as u128 + cnt as u128 <= size as u128 && s.len() == cnt && s.ptr_guard().as_ptr() as usize == host + off as usize, "C01,C02: region slice must lie inside the region at the requested offset"),
        Err(_) => assert!(off as u128 + cnt as u128 > size as u128, "C02: region slice that fits was refused"),
    }
    match reg.get_host_address(MemoryRegionAddress(off)) {
        Ok(p) => assert!(off < size as u64 && p as usize == host + off as usize, "C01,C02: host address must be region base + offset, only for offsets inside the region"),
        Err(_) => assert!(off >= size as u64, "C02: host address of an in-range offset was refused"),
    }
    assert!(reg.address_in_range(MemoryRegionAddress(off)) == (off < size as u64), "C02: address_in_range must be offset < len");
}
