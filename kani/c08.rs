// K-c08 (C08): the "step alphabet" of AtomicBitmap -- which atomic operations each method issues on
// which word with which operand -- observed by stubbing the std atomic methods with logging versions
// that also perform the operation.  V-c08 (Verus) proves that ANY interleaving of steps from this
// alphabet loses no mark; a fetch_or turned into load+store, or fetch_and(0) into load+store(0),
// changes the alphabet and fails here with the concrete log as counterexample.
// Child module of bitmap/backend/atomic_bitmap.rs (overlay O1): it builds bitmaps field by field.
#![allow(dead_code, unused_imports, static_mut_refs)]
use super::*;
use std::sync::atomic::{AtomicU64, Ordering};

#[derive(Clone, Copy, PartialEq)]
pub enum K { FetchOr, FetchAnd, Load, Store, Cas, Swap }
#[derive(Clone, Copy)]
pub struct Step { pub k: K, pub addr: usize, pub arg: u64, pub ret: u64, pub seqcst: bool }
const MAXS: usize = 8;
static mut STEPS: [Step; MAXS] = [Step { k: K::Load, addr: 0, arg: 0, ret: 0, seqcst: false }; MAXS];
static mut NS: usize = 0;
fn rec(k: K, a: &AtomicU64, arg: u64, ret: u64, o: Ordering) {
    unsafe {
        assert!(NS < MAXS, "step log overflow");
        STEPS[NS] = Step { k, addr: a as *const AtomicU64 as usize, arg, ret, seqcst: matches!(o, Ordering::SeqCst) };
        NS += 1;
    }
}
pub fn stub_fetch_or(a: &AtomicU64, v: u64, o: Ordering) -> u64 {
    let p = a.as_ptr();
    let old = unsafe { *p };
    unsafe { *p = old | v };
    rec(K::FetchOr, a, v, old, o);
    old
}
pub fn stub_fetch_and(a: &AtomicU64, v: u64, o: Ordering) -> u64 {
    let p = a.as_ptr();
    let old = unsafe { *p };
    unsafe { *p = old & v };
    rec(K::FetchAnd, a, v, old, o);
    old
}
pub fn stub_load(a: &AtomicU64, o: Ordering) -> u64 {
    let old = unsafe { *a.as_ptr() };
    rec(K::Load, a, 0, old, o);
    old
}
pub fn stub_store(a: &AtomicU64, v: u64, o: Ordering) {
    unsafe { *a.as_ptr() = v };
    rec(K::Store, a, v, 0, o);
}
pub fn stub_swap(a: &AtomicU64, v: u64, o: Ordering) -> u64 {
    let p = a.as_ptr();
    let old = unsafe { *p };
    unsafe { *p = v };
    rec(K::Swap, a, v, old, o);
    old
}
pub fn stub_cas(a: &AtomicU64, cur: u64, new: u64, o: Ordering, _f: Ordering) -> Result<u64, u64> {
    let p = a.as_ptr();
    let old = unsafe { *p };
    rec(K::Cas, a, new, old, o);
    if old == cur { unsafe { *p = new }; Ok(old) } else { Err(old) }
}

/// a 2-word bitmap with symbolic contents, page size 1 (page index == byte offset), symbolic page count
fn mk(words: usize) -> AtomicBitmap {
    let size: usize = kani::any();
    kani::assume(size <= words * 64 && size + 64 > words * 64);
    let map: Vec<AtomicU64> = if words == 1 { vec![AtomicU64::new(kani::any())] } else { vec![AtomicU64::new(kani::any()), AtomicU64::new(kani::any())] };
    AtomicBitmap { map, size, byte_size: size, page_size: NonZeroUsize::new(1).unwrap() }
}
fn word_addr(b: &AtomicBitmap, w: usize) -> usize { &b.map[w] as *const AtomicU64 as usize }

macro_rules! stubbed {
    ($(#[$m:meta])* pub fn $name:ident() $body:block) => {
        #[kani::proof]
        #[kani::unwind(10)]
        #[kani::stub(std::sync::atomic::Atomic::<u64>::fetch_or, stub_fetch_or)]
        #[kani::stub(std::sync::atomic::Atomic::<u64>::fetch_and, stub_fetch_and)]
        #[kani::stub(std::sync::atomic::Atomic::<u64>::load, stub_load)]
        #[kani::stub(std::sync::atomic::Atomic::<u64>::store, stub_store)]
        #[kani::stub(std::sync::atomic::Atomic::<u64>::swap, stub_swap)]
        #[kani::stub(std::sync::atomic::Atomic::<u64>::compare_exchange, stub_cas)]
        $(#[$m])*
        pub fn $name() $body
    };
}

stubbed! {
pub fn set_bit_is_one_fetch_or() {
    let b = mk(2);
    let n: usize = kani::any();
    b.set_bit(n);
    let ns = unsafe { NS };
    if n < b.size {
        assert!(ns == 1, "C08: set_bit must be exactly one atomic read-modify-write");
        let s = unsafe { STEPS[0] };
        assert!(s.k == K::FetchOr && s.addr == word_addr(&b, n >> 6) && s.arg == 1u64 << (n & 63) && s.seqcst,
            "C08: set_bit must be fetch_or(1 << bit, SeqCst) on the word that owns the page");
    } else {
        assert!(ns == 0, "C08,C09: set_bit beyond the page count must not touch the bitmap");
    }
}
}
stubbed! {
pub fn reset_bit_is_one_fetch_and() {
    let b = mk(2);
    let n: usize = kani::any();
    b.reset_bit(n);
    let ns = unsafe { NS };
    if n < b.size {
        assert!(ns == 1, "C08: reset_bit must be exactly one atomic read-modify-write");
        let s = unsafe { STEPS[0] };
        assert!(s.k == K::FetchAnd && s.addr == word_addr(&b, n >> 6) && s.arg == !(1u64 << (n & 63)) && s.seqcst,
            "C08: reset_bit must be fetch_and(!(1 << bit), SeqCst) on the word that owns the page");
    } else {
        assert!(ns == 0, "C08,C09: reset_bit beyond the page count must not touch the bitmap");
    }
}
}
stubbed! {
pub fn range_ops_are_one_rmw_per_page() {
    let b = mk(2);
    let start: usize = kani::any();
    let len: usize = kani::any();
    let set: bool = kani::any();
    kani::assume(len <= 4);
    kani::cover!(len == 4 && start == 62);
    if set { b.set_addr_range(start, len); } else { b.reset_addr_range(start, len); }
    let ns = unsafe { NS };
    // pages [start, start+len) below the page count, ascending, one RMW each, no load/store
    let mut expect = 0;
    let mut i = 0;
    while i < 4 {
        if i < len && start < usize::MAX - i && start + i < b.size {
            assert!(expect < ns, "C08,C05: a page of the range got no atomic mark");
            let s = unsafe { STEPS[expect] };
            let p = start + i;
            if set {
                assert!(s.k == K::FetchOr && s.addr == word_addr(&b, p >> 6) && s.arg == 1u64 << (p & 63) && s.seqcst,
                    "C08: marking a page must be fetch_or(1 << bit, SeqCst) on its word");
            } else {
                assert!(s.k == K::FetchAnd && s.addr == word_addr(&b, p >> 6) && s.arg == !(1u64 << (p & 63)) && s.seqcst,
                    "C08: clearing a page must be fetch_and(!(1 << bit), SeqCst) on its word");
            }
            expect += 1;
        }
        i += 1;
    }
    assert!(ns == expect, "C08,C16: range operation issued atomic steps beyond one RMW per page in range");
}
}
stubbed! {
pub fn get_and_reset_is_one_fetch_and_zero_per_word() {
    let b = mk(2);
    let v = b.get_and_reset();
    let ns = unsafe { NS };
    assert!(ns == 2 && v.len() == 2, "C08: get_and_reset must issue exactly one atomic step per word");
    let (s0, s1) = unsafe { (STEPS[0], STEPS[1]) };
    assert!(s0.k == K::FetchAnd && s0.arg == 0 && s0.addr == word_addr(&b, 0) && s0.seqcst
        && s1.k == K::FetchAnd && s1.arg == 0 && s1.addr == word_addr(&b, 1) && s1.seqcst,
        "C08: get_and_reset must be fetch_and(0, SeqCst) on each word (fetch and clear in ONE atomic step)");
    assert!(v[0] == s0.ret && v[1] == s1.ret, "C08: get_and_reset must return exactly what the fetch-and-clear steps returned");
    assert!(unsafe { *b.map[0].as_ptr() } == 0 && unsafe { *b.map[1].as_ptr() } == 0, "C09: get_and_reset must leave the bitmap empty");
}
}
stubbed! {
pub fn reset_is_plain_stores_and_clone_is_loads() {
    let b = mk(2);
    let c = b.clone();
    let ns = unsafe { NS };
    assert!(ns == 2, "C08: clone must read each word once");
    let (s0, s1) = unsafe { (STEPS[0], STEPS[1]) };
    assert!(s0.k == K::Load && s1.k == K::Load && s0.addr == word_addr(&b, 0) && s1.addr == word_addr(&b, 1), "C08: clone must be one load per word");
    assert!(c.size == b.size && c.byte_size == b.byte_size && c.page_size == b.page_size
        && unsafe { *c.map[0].as_ptr() } == s0.ret && unsafe { *c.map[1].as_ptr() } == s1.ret, "C09: clone must be an equal copy");
    assert!(word_addr(&c, 0) != word_addr(&b, 0), "C09: clone must be independent storage");
    b.reset();
    let ns2 = unsafe { NS };
    assert!(ns2 == 4, "C08: reset must write each word once");
    let (t0, t1) = unsafe { (STEPS[2], STEPS[3]) };
    assert!(t0.k == K::Store && t0.arg == 0 && t1.k == K::Store && t1.arg == 0, "C08: reset is a plain store(0) per word (documented as non-harvesting)");
}
}
// the path every guest write takes: VolatileSlice -> RefSlice (BaseSlice<&AtomicBitmap>) -> AtomicBitmap.
// The wrapper must add NO step of its own (a dirty_at pre-check is a load: check-then-skip races with a
// concurrent harvest and loses the mark) and drop none.
stubbed! {
pub fn mark_through_slice_wrapper_is_one_rmw_per_page() {
    let b = mk(2);
    let base: usize = kani::any();
    let off: usize = kani::any();
    let len: usize = kani::any();
    kani::assume(len <= 3);
    let sl = crate::bitmap::RefSlice::new(&b, base);
    let sl2 = sl.slice_at(off);
    let n0 = unsafe { NS };
    assert!(n0 == 0, "C08: deriving a bitmap slice must not touch the bitmap");
    sl2.mark_dirty(0, len);
    let ns = unsafe { NS };
    let start = base.wrapping_add(off);
    let mut expect = 0;
    let mut i = 0;
    while i < 3 {
        if i < len && start < usize::MAX - i && start + i < b.size {
            assert!(expect < ns, "C08,C05: a page written through a bitmap slice got no atomic mark");
            let s = unsafe { STEPS[expect] };
            let p = start + i;
            assert!(s.k == K::FetchOr && s.addr == word_addr(&b, p >> 6) && s.arg == 1u64 << (p & 63) && s.seqcst,
                "C08,C05: marking through a bitmap slice must be fetch_or(1 << bit, SeqCst) on the page's word and nothing else (no check-then-act)");
            expect += 1;
        }
        i += 1;
    }
    assert!(ns == expect, "C08,C16: marking through a bitmap slice issued atomic steps beyond one RMW per page in range");
}
}
