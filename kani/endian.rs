// K-endian (C20): each wrapper against the std byte-order functions, for ALL values (symbolic v).
use crate::endian::*;
use crate::bytes::ByteValued;
use std::mem::{align_of, size_of};

macro_rules! endian_proofs {
    ($W:ident, $N:ident, $m:ident, $to_bytes:ident) => {
        mod $m {
            use super::*;
            #[kani::proof]
            pub fn roundtrip_bytes_eq_layout() {
                let v: $N = kani::any();
                let w: $N = kani::any();
                let x = $W::from(v);
                kani::cover!(v != v.swap_bytes());
                // conversion from native and back
                assert!(x.to_native() == v);
                assert!(<$N as From<$W>>::from(x) == v);
                // in-memory bytes are the value in the declared byte order
                let want = v.$to_bytes();
                let got = x.as_slice();
                assert!(got.len() == want.len());
                let mut i = 0;
                while i < size_of::<$N>() {
                    assert!(got[i] == want[i]);
                    i += 1;
                }
                // comparison with a native integer: true exactly for the represented value
                assert!((x == w) == (v == w));
                assert!((w == x) == (v == w));
                // wrapper == wrapper follows the values
                assert!(($W::from(v) == $W::from(w)) == (v == w));
                // layout
                assert!(size_of::<$W>() == size_of::<$N>());
                assert!(align_of::<$W>() == align_of::<$N>());
                assert!($W::default().to_native() == 0);
            }
        }
    };
}
endian_proofs!(Le16, u16, le16, to_le_bytes);
endian_proofs!(Le32, u32, le32, to_le_bytes);
endian_proofs!(Le64, u64, le64, to_le_bytes);
endian_proofs!(LeSize, usize, lesize, to_le_bytes);
endian_proofs!(Be16, u16, be16, to_be_bytes);
endian_proofs!(Be32, u32, be32, to_be_bytes);
endian_proofs!(Be64, u64, be64, to_be_bytes);
endian_proofs!(BeSize, usize, besize, to_be_bytes);

// storing a wrapper into guest memory leaves exactly the wire-format bytes
macro_rules! wire_proofs {
    ($W:ident, $N:ident, $m:ident, $to_bytes:ident) => {
        mod $m {
            use super::*;
            use crate::{Bytes, VolatileSlice};
            #[kani::proof]
            #[kani::unwind(10)]
            pub fn write_obj_gives_wire_format() {
                let v: $N = kani::any();
                let mut mem = [0u8; 16];
                let off: usize = kani::any();
                kani::assume(off <= 16 - size_of::<$N>());
                {
                    let s = VolatileSlice::from(&mut mem[..]);
                    s.write_obj($W::from(v), off).unwrap();
                    let back: $W = s.read_obj(off).unwrap();
                    assert!(back.to_native() == v);
                }
                let want = v.$to_bytes();
                let mut i = 0;
                while i < size_of::<$N>() {
                    assert!(mem[off + i] == want[i]);
                    i += 1;
                }
            }
        }
    };
}
wire_proofs!(Le16, u16, wire_le16, to_le_bytes);
wire_proofs!(Be32, u32, wire_be32, to_be_bytes);
wire_proofs!(Le64, u64, wire_le64, to_le_bytes);
wire_proofs!(Be64, u64, wire_be64, to_be_bytes);

// ... also when a whole array of wrappers is moved slice-to-slice (element count vs byte count)
macro_rules! wire_array_proofs {
    ($W:ident, $N:ident, $m:ident, $to_bytes:ident) => {
        mod $m {
            use super::*;
            use crate::{Bytes, VolatileMemory, VolatileSlice};
            #[kani::proof]
            #[kani::unwind(10)]
            pub fn array_of_wrappers_moves_as_wire_format() {
                let v: [$N; 3] = kani::any();
                let mut a = [0u8; 24];
                let mut b = [0u8; 24];
                {
                    let sa = VolatileSlice::from(&mut a[..]);
                    let sb = VolatileSlice::from(&mut b[..]);
                    let arr = sa.get_array_ref::<$W>(0, 3).unwrap();
                    let mut i = 0;
                    while i < 3 { arr.store(i, $W::from(v[i])); i += 1; }
                    arr.copy_to_volatile_slice(sb);
                }
                let mut i = 0;
                while i < 3 {
                    let want = v[i].$to_bytes();
                    let mut k = 0;
                    while k < size_of::<$N>() {
                        assert!(b[i * size_of::<$N>() + k] == want[k], "C20,C04: an array of endian wrappers copied slice-to-slice must arrive as its wire-format bytes, every element whole");
                        k += 1;
                    }
                    i += 1;
                }
            }
        }
    };
}
wire_array_proofs!(Le16, u16, wire_array_le16, to_le_bytes);
wire_array_proofs!(Be32, u32, wire_array_be32, to_be_bytes);
