// K-stdspec: cross-checks of the std contracts that the Verus preludes ASSUME (R4 / R6), against the real
// std code.  Integer items: loop-free, complete.  Slice algorithms: bounded (<= 4 elements) evidence for
// an assumption, not a proof of std.
#![allow(dead_code, unused_imports)]

#[kani::proof]
pub fn std_integer_contracts() {
    let a: usize = kani::any();
    let b: usize = kani::any();
    // (usize::div_ceil: a 64-bit symbolic divider does not finish in CBMC within 10 minutes; its assumed spec
    //  `(a + b - 1) / b` stays an unchecked assumption, listed in the trusted base)
    // u64::overflowing_add / overflowing_sub
    let (x, y): (u64, u64) = (kani::any(), kani::any());
    let (s, f) = x.overflowing_add(y);
    assert!(f == (x as u128 + y as u128 > u64::MAX as u128) && s as u128 == (x as u128 + y as u128) % (1u128 << 64), "assumed spec of u64::overflowing_add is wrong");
    let (d, g) = x.overflowing_sub(y);
    assert!(g == (x < y) && d as u128 == (x as u128 + (1u128 << 64) - y as u128) % (1u128 << 64), "assumed spec of u64::overflowing_sub is wrong");
    // isize::try_from(usize)
    match isize::try_from(a) { Ok(v) => assert!(a <= isize::MAX as usize && v as usize == a), Err(_) => assert!(a > isize::MAX as usize, "assumed spec of isize::try_from is wrong") }
    // usize::saturating_add (vstd's own spec, re-checked)
    assert!(a.saturating_add(b) as u128 == if a as u128 + b as u128 > usize::MAX as u128 { usize::MAX as u128 } else { a as u128 + b as u128 });
}

#[kani::proof]
#[kani::unwind(8)]
pub fn std_slice_algorithm_contracts() {
    let v: [u64; 4] = kani::any();
    let n: usize = kani::any();
    kani::assume(n <= 4);
    let key: u64 = kani::any();
    // binary_search_by_key on input sorted by key
    let s = &v[..n];
    let mut sorted = true;
    let mut i = 1;
    while i < 4 { if i < n && s[i - 1] > s[i] { sorted = false; } i += 1; }
    if sorted {
        match s.binary_search_by_key(&key, |x| *x) {
            Ok(i) => assert!(i < n && s[i] == key, "assumed spec of binary_search_by_key (Ok) is wrong"),
            Err(i) => {
                assert!(i <= n, "assumed spec of binary_search_by_key (Err bound) is wrong");
                let mut j = 0;
                while j < 4 { if j < n { if j < i { assert!(s[j] < key); } else { assert!(s[j] > key); } } j += 1; }
            }
        }
    }
    // windows(2): yields [s[k], s[k+1]] for k = 0 .. n-2, then None
    let mut it = s.windows(2);
    let mut k = 0;
    while k < 4 {
        match it.next() {
            Some(w) => assert!(k + 1 < n && w.len() == 2 && w[0] == s[k] && w[1] == s[k + 1], "assumed spec of windows(2)/next is wrong"),
            None => { assert!(k + 2 > n, "windows(2) ended early"); break; }
        }
        k += 1;
    }
}

#[kani::proof]
#[kani::unwind(8)]
pub fn std_sort_by_key_is_a_sorted_permutation() {
    let v: [(u64, u8); 3] = kani::any();
    let mut w = v;
    w.sort_by_key(|x| x.0);
    assert!(w[0].0 <= w[1].0 && w[1].0 <= w[2].0, "sort_by_key result is not sorted by key");
    // permutation with an injective index witness (bounded: 3 elements)
    let mut found = false;
    let perms: [[usize; 3]; 6] = [[0, 1, 2], [0, 2, 1], [1, 0, 2], [1, 2, 0], [2, 0, 1], [2, 1, 0]];
    let mut p = 0;
    while p < 6 { if w[0] == v[perms[p][0]] && w[1] == v[perms[p][1]] && w[2] == v[perms[p][2]] { found = true; } p += 1; }
    assert!(found, "sort_by_key result is not a permutation of its input");
}
